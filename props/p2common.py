"""Shared by the checks that rest on the v2 protocol model (Model/Proto2.v): C01 C02 C04 C05 C06 C07 C09 C10 C11.

One run of the p2 harness (real reconcilers driven step by step, sharded over processes) + the extracted
model/monitor driver serves all of them; the result is cached under .work/p2cache keyed by the exact state of
/repo's working tree, the harness, the driver, the model, the seed and the tier - so every check still rebuilds
from and runs against /repo's current tree, but nine checks in a row cost one run."""
import hashlib
import json
import os
import subprocess
import time

import vlib

MODEL_FILES = ["coq/Model/Proto2.v", "coq/Model/P2Pure.v", "coq/Model/P2Inst.v", "coq/Extract/ExP2.v", "coq/Base/Bytes.v",
               "ocaml/p2_check.ml", "ocaml/mlib.ml"]


def _sha_files(paths):
    h = hashlib.sha1()
    for p in paths:
        try:
            h.update(open(p, "rb").read())
        except OSError:
            h.update(b"?")
    return h.hexdigest()


def repo_state():
    """hash of /repo's working tree: HEAD + tracked modifications + untracked go files"""
    h = hashlib.sha1()
    for cmd in (["git", "-C", vlib.REPO, "rev-parse", "HEAD"], ["git", "-C", vlib.REPO, "diff", "HEAD"],
                ["git", "-C", vlib.REPO, "status", "--porcelain"]):
        h.update(subprocess.run(cmd, stdout=subprocess.PIPE, stderr=subprocess.DEVNULL).stdout)
    # content of untracked files
    out = subprocess.run(["git", "-C", vlib.REPO, "ls-files", "--others", "--exclude-standard"], stdout=subprocess.PIPE, text=True).stdout
    for f in sorted(out.split("\n")):
        if f:
            try:
                h.update(open(os.path.join(vlib.REPO, f), "rb").read())
            except OSError:
                pass
    return h.hexdigest()


def sizes(tier):
    if tier == "thorough":
        return 640, 480
    return 64, 48


def p2_run(ctx):
    mcheck = ctx.build_mcheck("p2", "ExP2.v", "p2_check.ml", extra_ml=["mlib.ml"])
    exe, log = ctx.build_harness("p2")
    if exe is None:
        raise vlib.CheckError("harness build failed:\n" + log[-3000:])
    hfiles = []
    for d, _, fs in os.walk(os.path.join(vlib.ROOT, "harness")):
        for f in fs:
            if f.endswith(".go") and ("/cmd/p2" in d or "/fakes" in d or "/env" in d):
                hfiles.append(os.path.join(d, f))
    n, ncrash = sizes(ctx.tier)
    key = hashlib.sha1(("|".join([repo_state(), _sha_files(sorted(hfiles)), _sha_files([os.path.join(vlib.ROOT, f) for f in MODEL_FILES]),
                                  str(ctx.seed), ctx.tier, str(n), str(ncrash)])).encode()).hexdigest()[:20]
    cdir = os.path.join(vlib.WORK, "p2cache")
    os.makedirs(cdir, exist_ok=True)
    cfile = os.path.join(cdir, key + ".json")
    lines_path = os.path.join(cdir, key + ".tsv")
    import fcntl
    with open(os.path.join(cdir, key + ".lock"), "w") as lk:
        fcntl.flock(lk, fcntl.LOCK_EX)
        if os.path.exists(cfile) and os.path.exists(lines_path):
            res = json.load(open(cfile))
            res["cached"] = True
            ctx.p2_lines = lines_path
            return res
        t0 = time.time()
        shards = min(16, os.cpu_count() or 4)
        procs = []
        for i in range(shards):
            # every shard writes to its own file: a pipe would block the shard until the parent gets round to reading it
            of = open(os.path.join(cdir, "%s.shard%d" % (key, i)), "wb")
            procs.append((subprocess.Popen([exe, "-seed", str(ctx.seed), "-n", str(n), "-crash", str(ncrash), "-shards", str(shards), "-shard", str(i)],
                                           stdout=of, stderr=subprocess.PIPE, env=dict(os.environ, **vlib.GOENV)), of))
        outs = []
        crashed = []
        for i, (p, of) in enumerate(procs):
            try:
                _, se = p.communicate(timeout=6000)
            except subprocess.TimeoutExpired:
                p.kill()
                raise vlib.CheckError("p2 harness shard timed out")
            of.close()
            if p.returncode != 0:
                err = se.decode("utf8", "replace")
                if "panic:" in err and "github.com/onosproject/onos-config/pkg/" in err:
                    # the code under verification panicked inside the harness process (a reconcile goroutine nobody
                    # recovers): that is the server process dying - a finding of its own, not a tooling failure
                    at = err.rfind("panic:")
                    crashed.append(err[max(0, at - 300):at + 2500])
                    continue  # the lines of that shard are dropped (its last history is incomplete)
                raise vlib.CheckError("p2 harness shard failed rc=%s\n%s" % (p.returncode, err[-3000:]))
            fn = os.path.join(cdir, "%s.shard%d" % (key, i))
            outs.append(open(fn, "rb").read())
            os.remove(fn)
        so = b"".join(outs).decode("utf8", "replace")
        open(lines_path, "w").write(so)
        # one model-checker process per shard (histories are independent); statistics are summed
        mps = []
        for o in outs:
            mp = subprocess.Popen([mcheck], stdin=subprocess.PIPE, stdout=subprocess.PIPE, stderr=subprocess.PIPE)
            mps.append((mp, o))
        import threading
        mres = [None] * len(mps)

        def feed(i, mp, o):
            try:
                mres[i] = mp.communicate(o, timeout=3000) + (mp.returncode,)
            except subprocess.TimeoutExpired:
                mp.kill()
                mres[i] = (b"", b"timeout", 99)
        ths = [threading.Thread(target=feed, args=(i, mp, o)) for i, (mp, o) in enumerate(mps)]
        for t in ths:
            t.start()
        for t in ths:
            t.join()
        res = None
        for mo, me, rc in mres:
            if rc != 0:
                raise vlib.CheckError("p2 mcheck failed rc=%s\n%s\n%s" % (rc, mo.decode("utf8", "replace")[-2000:], me.decode("utf8", "replace")[-2000:]))
            r = vlib.parse_mcheck(mo.decode("utf8", "replace"), "")
            if res is None:
                res = r
            else:
                for k, v in r["stats"].items():
                    res["stats"][k] = res["stats"].get(k, 0) + v
                res["mismatches"] += r["mismatches"]
                res["specviols"] += r["specviols"]
                res["samples"] += r["samples"]
        res["samples"] = res["samples"][:40]
        res["crashed_shards"] = crashed
        res["nlines"] = so.count("\n")
        res["harness_s"] = round(time.time() - t0, 1)
        # keep the cache small
        for f in sorted(os.listdir(cdir)):
            if not f.endswith(".lock") and not f.startswith(key) and time.time() - os.path.getmtime(os.path.join(cdir, f)) > 6 * 3600:
                os.remove(os.path.join(cdir, f))
        json.dump(res, open(cfile, "w"))
        res["cached"] = False
        ctx.p2_lines = lines_path
        return res


def history_of(lines_path, case_id, maxlines=400):
    """the observation lines of the history a case id belongs to (the replay)"""
    hid = case_id.split(":")[0]
    out = []
    try:
        for ln in open(lines_path):
            f = ln.split("\t", 3)
            if len(f) > 1 and (f[1] == hid or f[1].startswith(hid + ":")):
                out.append(ln.rstrip("\n")[:6000])
                if len(out) >= maxlines:
                    break
    except OSError:
        pass
    return out


def p2_judge(ctx, res, prefixes, what):
    """violations of this property: monitor failures whose signature starts with one of `prefixes`, and model/implementation
    disagreements on steps that exercise this property's part of the model"""
    prop = ctx.prop
    mine = [v for v in res["specviols"] if any(v["signature"].startswith(p) for p in prefixes)]
    concrete = 0
    seen = set()
    for v in mine:
        kf = [k for k in vlib.known_findings(prop) if k["status"] == "open" and k["signature"] == v["signature"]]
        if kf:
            ctx.known_hits.setdefault(kf[0]["id"], kf[0]["what"])
            continue
        concrete += 1
        if v["signature"] in seen:
            continue
        seen.add(v["signature"])
        ctx.violation("property monitor %s failed on the implementation: %s" % (v["signature"], v["detail"]),
                      {"case": v["id"], "signature": v["signature"], "detail": v["detail"],
                       "history": history_of(ctx.p2_lines, v["id"]),
                       "how": "harness/cmd/p2 -seed %s -one <n of history %s>: the lines are the observations of the real reconcilers" % (ctx.seed, v["id"].split(":")[0])})
    for tr in res.get("crashed_shards", [])[:2]:
        ctx.violation("the code under verification panicked during the protocol run (an unrecovered panic in a reconcile goroutine "
                      "ends the server process): " + " ".join(tr.split())[:600],
                      {"signature": "c12_process_crash_in_controller", "trace": tr,
                       "how": "harness/cmd/p2 -seed %s (the shard that died; the trace names the frame in /repo)" % ctx.seed})
    mm = [m for m in res["mismatches"] if ("[" not in m["detail"][:3]) or (prop in m["detail"].split("]")[0])]
    if mm:
        m = mm[0]
        ctx.violation("correspondence %s no longer checks: %d step(s) of the real reconcilers are not steps of the model, first: %s"
                      % (what, len(mm), m["detail"][:900]),
                      {"broken": "correspondence " + what, "case": m["id"], "history": history_of(ctx.p2_lines, m["id"]),
                       "all": [x["detail"][:400] for x in mm[:10]]}, no_input=(concrete == 0))
    if not getattr(ctx, "proof_ok", True):
        ctx.violation("proof obligation of Properties/%s.v no longer checks:\n%s" % (prop, ctx.proof_log[-1500:]),
                      {"broken": "theorems of coq/Properties/%s.v" % prop, "log": ctx.proof_log[-4000:]}, no_input=(concrete == 0))
    st = res["stats"]
    ctx.coverage.update({
        "evaluations": st.get("steps.total", 0),
        "distinct_nontrivial": st.get("distinct", 0),
        "rule": "histories of the real v2 reconcilers (transaction, proposal, configuration, mastership, connection) over real stores: "
                "2-6 northbound operations (multi-target Sets with updates/deletes/plugin-rejected values, rollbacks of the last and of other "
                "indexes, a target without model plugin) interleaved with connection loss/gain, competing connections, foreign relations, device "
                "restarts, device error bursts of every gRPC code, random reconcile order, reconciles stopped after their 1st/2nd write "
                "(crash histories), then run to a fixed point. evaluations = reconcile/environment steps; distinct_nontrivial = distinct "
                "(label kind, pre-state) pairs among the steps that changed the state (no-op steps are validated too but not counted)",
        "samples": res["samples"][:6] or ["(none)"],
        "traces_validated_against_impl": st.get("histories", 0),
        "steps_validated": st.get("steps.total", 0),
        "steps_state_changing": st.get("steps.total", 0) - st.get("steps.noop", 0),
        "crashed_reconciles": st.get("step.crashed", 0),
        "model_impl_mismatches_this_property": len(mm),
        "monitor_failures_this_property": len(mine),
        "monitors": prefixes,
        "input_distribution": {k: v for k, v in sorted(st.items()) if k.startswith(("step.", "hist.", "nb.", "end."))},
        "p2_run_cached": res.get("cached", False),
    })
    ctx.trusted = vlib.STD_TRUSTED + [
        "modelled (Model/Proto2.v, branch for branch): the five reconcilers named above incl. the effect order of every invocation; crash = any "
        "prefix of an invocation's effects; concrete pure layer Model/P2Pure.v (AddDeleteChildren, applyChangeToConfig, PrunePathValues, "
        "configuration store write, PathValuesToGnmiChange) as far as the protocol needs it",
        "not modelled: goroutine scheduling inside one reconcile (reads of one invocation are simultaneous in the model), watchers/queues "
        "(C09 runs a work-set of its own), ValidateCapabilities, real gRPC connectivity (connection up/down are labels), Atomix itself, timestamps",
        "environment choices that are not observable beforehand (random master, Go map order of the targets of a change and of the cascaded "
        "change values) are enumerated by the driver; the verdict of the model plugin and the device answer are read off the observation",
        "a crash between the path-value write and the entry write of ONE configuration store call is in the model (two effects) but is not "
        "injected on the implementation (crash points are store-call boundaries and device calls)",
    ]


def p2_extra(ctx, prefixes, what):
    """for a property whose own pipeline is elsewhere: additionally consume the shared protocol run - monitor failures with
    one of `prefixes` and model/implementation disagreements on steps tagged with this property"""
    prop = ctx.prop
    res = p2_run(ctx)
    seen = set()
    concrete = 0
    for v in res["specviols"]:
        if not any(v["signature"].startswith(p) for p in prefixes):
            continue
        kf = [k for k in vlib.known_findings(prop) if k["status"] == "open" and k["signature"] == v["signature"]]
        if kf:
            ctx.known_hits.setdefault(kf[0]["id"], kf[0]["what"])
            continue
        concrete += 1
        if v["signature"] in seen:
            continue
        seen.add(v["signature"])
        ctx.violation("property monitor %s failed on the implementation (protocol run): %s" % (v["signature"], v["detail"]),
                      {"case": v["id"], "signature": v["signature"], "detail": v["detail"], "history": history_of(ctx.p2_lines, v["id"]),
                       "how": "harness/cmd/p2 -seed %s: the lines are the observations of the real reconcilers" % ctx.seed})
    mm = [m for m in res["mismatches"] if ("[" in m["detail"][:3]) and (prop in m["detail"].split("]")[0])]
    if mm:
        m = mm[0]
        ctx.violation("correspondence %s no longer checks: %d step(s) of the real reconcilers are not steps of the model, first: %s"
                      % (what, len(mm), m["detail"][:900]),
                      {"broken": "correspondence " + what, "case": m["id"], "history": history_of(ctx.p2_lines, m["id"]),
                       "all": [x["detail"][:400] for x in mm[:10]]}, no_input=(concrete == 0))
    st = res["stats"]
    ctx.coverage["protocol_run"] = {"what": what, "histories": st.get("histories", 0), "steps_validated": st.get("steps.total", 0),
                                    "crashed_reconciles": st.get("step.crashed", 0), "mismatches_this_property": len(mm),
                                    "monitors": prefixes, "cached": res.get("cached", False)}

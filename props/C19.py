"""C19 - subscriptions reach exactly the targets they name."""
import os
import vlib


def run(ctx):
    vlib.proof_step(ctx)
    mcheck = ctx.build_mcheck("c19", "ExC19.v", "c19_check.ml", extra_ml=["mlib.ml"])
    exe, log = ctx.build_harness("c19")
    if exe is None:
        raise vlib.CheckError("harness build failed:\n" + log[-3000:])
    big = ctx.tier == "thorough"
    res = None
    for k in range(3 if big else 1):
        args = ["-seed", int(ctx.seed) + 1000 * k, "-n", 120000 if big else 6000, "-long", 3000 if big else 150,
                "-enum", 5 if big else 4, "-corpus", os.path.join(vlib.ROOT, "corpus", "c19.tsv")]
        one = vlib.run_pipeline(ctx, exe, args, mcheck)
        if res is None:
            res = one
        else:
            for key, v in one["stats"].items():
                res["stats"][key] = res["stats"].get(key, 0) + v   # seeds differ, so distinct cases add up too
            res["mismatches"] += one["mismatches"]
            res["specviols"] += one["specviols"]
            res["nlines"] += one["nlines"]
        if one["mismatches"] or one["specviols"]:
            break   # keep lines.tsv of the failing run for the replay
    cross_check_in_coq(ctx, 600 if big else 150)
    vlib.judge(ctx, res, "Subscribe.v <-> gnmi/v2 Server.Subscribe (processSubscribeRequest, splitSubscribeRequest, copyPrefix, poll and response relay)")
    vlib.std_coverage(ctx, res,
                      "sub.run: one run of the real Server.Subscribe per line, fed by a scripted stream (0..5 messages, long stream 6..40: "
                      "subscribe by prefix target / by path targets over 1..4 targets + odd target names / without any target, poll, "
                      "empty request, second subscribe; device responses and foreign messages interleaved) through the protobuf wire "
                      "format; recording per-target southbound clients (exact SubscribeRequest received, polls) and the subscriber "
                      "stream (messages sent).  distinct = distinct (connected targets, script, stream end) tuples; a case is "
                      "non-trivial when at least one message is processed (first.none counts the others)")
    ctx.trusted = vlib.STD_TRUSTED + [
        "modelled: Server.Subscribe loop, processSubscribeRequest, splitSubscribeRequest, copyPrefix, sendSubscriptionRequest "
        "(GetByTarget, the Target derived by NewQuery, the ProtoHandler relay), sendPollRequest; not modelled: the openconfig gnmi "
        "client library behind sb.Client (replaced by recording fakes), gRPC transport, concurrent arrival of device responses "
        "(the harness delivers them between two northbound messages), connections appearing/disappearing during a stream",
        "subscription entries, prefix elems, list options and extensions are opaque byte strings in the model (their deterministic "
        "protobuf encoding in the harness); 'unmodified' is byte equality of that encoding"]
    ctx.notes = ["messages reach the handler wire-decoded (as from a gRPC server): entries are never nil, a subscribe request always carries a list",
                 "a subscription naming a target without a southbound connection is silently not forwarded (GetByTarget error discarded); "
                 "the stream stays open and the subscriber is not told - recorded, not judged a violation of the property text",
                 "entries without a target in a request without prefix target are dropped silently when another entry names a target"]


def _coq_str(h):
    return vlib.coq_bytes(bytes.fromhex(h) if h not in ("-", "") else b"")


def _coq_req(d):
    ext, p, o, es = d.split("=")
    if p == "~":
        pre = "None"
    else:
        t, og, el, elt = p.split(".")
        pre = "(Some {| p_target := %s; p_origin := %s; p_elems := %s; p_element := %s |})" % (_coq_str(t), _coq_str(og), _coq_str(el), _coq_str(elt))
    q, m, a, um, e, u = o.split(".")
    qos = "None" if q == "~" else "(Some %s)" % _coq_str(q[1:])
    ents = [] if es == "_" else ["{| e_target := %s; e_body := %s |}" % tuple(_coq_str(x) for x in en.split("/")) for en in es.split(",")]
    return ("{| r_list := {| l_prefix := %s; l_subs := [%s]; l_opts := {| o_qos := %s; o_mode := %s; o_allow := %s; o_models := %s; "
            "o_enc := %s; o_upd := %s |} |}; r_ext := %s |}" % (pre, "; ".join(ents), qos, m, "true" if a == "1" else "false",
                                                               _coq_str(um), e, "true" if u == "1" else "false", _coq_str(ext)))


def _coq_step(s):
    if s == "P":
        return "SMsg MPoll"
    if s == "N":
        return "SMsg MNone"
    if s.startswith("S:"):
        return "SMsg (MSub %s)" % _coq_req(s[2:])
    _, t, k, p = s.split(":")
    return "SDev %s %s" % (_coq_str(t), "(DResp %s)" % _coq_str(p) if k == "r" else "DOther")


def cross_check_in_coq(ctx, n):
    """re-evaluate a slice of the observations inside Coq (vm_compute of Model.Subscribe.check_case)"""
    cases = []
    size = 0
    total = sum(1 for _ in open(os.path.join(ctx.work, "lines.tsv")))
    stride = max(1, total // (2 * n))
    for i, ln in enumerate(open(os.path.join(ctx.work, "lines.tsv"))):
        if i % stride != 0:
            continue
        f = ln.rstrip("\n").split("\t")
        if f[0] != "sub.run" or len(f) != 8 or len(ln) > 6000:
            continue
        if len(cases) >= n or size > 900000:
            break
        _, cid, known, end, script, result, fwd, rel = f
        if result not in ("invalid", "eof", "nil") or "/x/" in rel:
            continue
        kl = [] if known == "." else known.split(",")
        steps = [] if script == "_" else [_coq_step(s) for s in script.split(";")]
        per = {}
        if fwd != "_":
            for rec in fwd.split(";"):
                _, t, evs = rec.split(":")
                per[t] = []
                for ev in evs.split("|"):
                    if ev == "p":
                        per[t].append("OPoll %s" % _coq_str(t))
                    else:
                        _, qt, _, d = ev.split("!")
                        per[t].append("OSub %s %s %s" % (_coq_str(t), _coq_str(qt), _coq_req(d)))
        for t in kl:
            per.setdefault(t, [])
        rl = []
        if rel != "_":
            for e in rel.split(","):
                t, k, p = e.split("/")
                rl.append("OSend %s %s" % (_coq_str(t), _coq_str(p)) if k == "r" else "ORelayErr %s" % _coq_str(t))
        term = "check_case [%s] [%s] %s %s [%s] [%s]" % (
            "; ".join(_coq_str(t) for t in kl), "; ".join(steps), "EndEOF" if end == "eof" else "EndErr",
            {"invalid": "RInvalid", "eof": "REof", "nil": "RNil"}[result],
            "; ".join("(%s, [%s])" % (_coq_str(t), "; ".join(v)) for t, v in sorted(per.items())), "; ".join(rl))
        cases.append(term)
        size += len(term)
    body = ("From Coq Require Import List NArith Bool.\nFrom OC Require Import Base.Bytes Model.Subscribe.\nImport ListNotations.\nOpen Scope N_scope.\n"
            "Definition cases : list bool := [\n" + ";\n".join(cases) + "].\n"
            "Definition bad := Eval vm_compute in List.length (filter negb cases).\nPrint bad.\n"
            "Definition total := Eval vm_compute in List.length cases.\nPrint total.\n")
    rc, out = vlib.coq_eval(ctx, "cases_c19", body)
    flat = out.replace("\n", " ")
    ok = rc == 0 and "bad = 0" in flat and ("total = %d" % len(cases)) in flat
    ctx.coverage["in_kernel_cross_check"] = {"cases": len(cases), "agree": ok}
    if not ok:
        ctx.violation("in-kernel evaluation of Model.Subscribe.run disagrees with the implementation on the sampled cases",
                      {"broken": "cases_c19.v (vm_compute of the model on harness observations)", "output": out[-1500:]}, no_input=True)

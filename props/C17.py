"""C17 - values survive the journey unchanged."""
import os
import vlib


def run(ctx):
    vlib.proof_step(ctx)
    mcheck = ctx.build_mcheck("c17", "ExC17.v", "c17_check.ml", extra_ml=["mlib.ml"])
    exe, log = ctx.build_harness("c17")
    if exe is None:
        raise vlib.CheckError("harness build failed:\n" + log[-3000:])
    big = ctx.tier == "thorough"
    args = ["-seed", ctx.seed, "-rt", 60000 if big else 4000, "-tv", 20000 if big else 1500, "-str", 5000 if big else 400,
            "-e2e", 1500 if big else 150, "-corpus", os.path.join(vlib.ROOT, "corpus", "c17.tsv")]
    res = vlib.run_pipeline(ctx, exe, args, mcheck)
    cross_check_in_coq(ctx, 1500 if big else 250)
    vlib.judge(ctx, res, "Value.v <-> GnmiTypedValueToNativeType / NativeTypeToGnmiTypedValue (v2, v3) / handleLeafValue via BuildTree / "
                         "StrVal / Set -> configuration store -> Get PROTO, JSON, model plugin document, device request")
    vlib.std_coverage(ctx, res,
                      "value.rt: real v2 and v3 GnmiTypedValueToNativeType then NativeTypeToGnmiTypedValue on generated gNMI values of every "
                      "kind (string/ascii/int/uint/bool/bytes/decimal/float and leaf-lists of them), widths 8/16/32/64 and odd type options, "
                      "boundary values (extremes of every width, powers of two, empty strings/bytes, decimals around 0 and +-1, float "
                      "specials), plus shapes of the known findings and malformed compositions; value.json: the stored value (after a "
                      "protobuf round trip) rendered by the real BuildTree (v2, v3) on one leaf with both jsonRFC7951 flags, parsed back and "
                      "compared as JSON type + exact digits; value.tv: arbitrary and damaged stored values through NativeTypeToGnmiTypedValue "
                      "and BuildTree under recover(); value.str: utils.StrVal on decimals; value.e2e: real gNMI Set over real stores and "
                      "controllers, stored TypedValue read from the configuration store, Get PROTO, Get JSON, the document the model plugin "
                      "received, the device request from PathValuesToGnmiChange. distinct = distinct (value, type options) inputs; all are "
                      "non-trivial (each goes through encoding and decoding)")
    ctx.trusted = vlib.STD_TRUSTED + [
        "modelled: GnmiTypedValueToNativeType, handleLeafList, NativeTypeToGnmiTypedValue (v2 = v3 code), handleLeafValue, "
        "utils.strDecimal64/StrVal for decimals, and the onos-api TypedValue constructors/accessors they call (typedvalue.go)",
        "abstracted: float32 values are carried as bit patterns; float32<->float64 conversion, big.Float gob encoding, encoding/json "
        "(string escaping, base64 of []byte, shortest float text), fmt %f and strconv.ParseFloat are trusted; the driver re-computes "
        "them with OCaml's printf/float_of_string and the correspondence run compares the results",
        "strings are byte strings; JSON strings are compared after decoding, for valid UTF-8 (what protobuf lets through)",
    ]
    ctx.notes = ["widths come from the model path's type options (ReadWritePath.TypeOpts[0]); without them the code assumes 32",
                 "a value is 'supported' when it is a scalar string/ascii/int/uint/bool/bytes/decimal64/float32(not NaN) or a non-empty "
                 "leaf-list of one such kind (decimals of one precision)",
                 "open findings (F-12a, F-12b, F-12e) are rooted in the onos-api dependency; F-12c/d/f/g/h are repaired in /repo (0d53a20, f016b97, 951349c) and the model the run compares with is the repaired code"]


def cross_check_in_coq(ctx, n):
    """re-evaluate a slice of the value.rt observations inside Coq (vm_compute) - cross-checks extraction"""
    from props import c17_util
    cases = c17_util.coq_cases(os.path.join(ctx.work, "lines.tsv"), n)
    body = ("From Coq Require Import List NArith ZArith Bool.\nFrom OC Require Import Base.Bytes Model.Value.\nImport ListNotations.\nOpen Scope Z_scope.\n"
            + c17_util.COQ_EQ +
            "Definition cases : list (gval * option (list Z) * res tv * res gval) := [\n" + ";\n".join(cases) + "].\n"
            "Definition agrees (c : gval * option (list Z) * res tv * res gval) : bool :=\n"
            "  match c with (g, o, n, b) =>\n"
            "    res_eqb tv_eqb (to_native true g o) n &&\n"
            "    match n with Ok t => res_eqb gval_eqb (to_gnmi t) b | _ => true end end.\n"
            "Definition bad := Eval vm_compute in List.length (filter (fun c => negb (agrees c)) cases).\n"
            "Print bad.\n")
    rc, out = vlib.coq_eval(ctx, "cases_c17", body)
    ok = rc == 0 and "bad = 0" in out.replace("\n", " ")
    ctx.coverage["in_kernel_cross_check"] = {"cases": len(cases), "agree": ok}
    if not ok:
        ctx.violation("in-kernel evaluation of Model.Value.to_native / to_gnmi disagrees with the implementation on the sampled cases",
                      {"broken": "cases_c17.v (vm_compute of the model on harness observations)", "output": out[-1500:]}, no_input=True)

"""C09 - Controllers never strand a transaction that could make progress (protocol model Model/Proto2.v, shared p2 run)."""
import vlib
from props import p2common

PREFIXES = ['c09_']


def run(ctx):
    vlib.proof_step(ctx)
    res = p2common.p2_run(ctx)
    p2common.p2_judge(ctx, res, PREFIXES, "Model/Proto2.v <-> the real v2 reconcilers (steps exercising C09)")
    # the real controllers with their real watchers and queues (lost wake-up scenarios found by the queue model)
    from props import c09_extra
    c09_extra.run_extra(ctx)

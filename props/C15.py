"""C15 - stores never lose an update; watchers never miss the latest state."""
import os
import vlib


def run(ctx):
    vlib.proof_step(ctx)
    mcheck = ctx.build_mcheck("c15", "ExC15.v", "c15_check.ml", extra_ml=["mlib.ml"])
    exe, log = ctx.build_harness("c15")
    if exe is None:
        raise vlib.CheckError("harness build failed:\n" + log[-3000:])
    big = ctx.tier == "thorough"
    args = ["-seed", ctx.seed, "-hist", 120 if big else 14, "-steps", 40 if big else 30, "-stress", 12 if big else 1,
            "-corpus", os.path.join(vlib.ROOT, "corpus", "c15.tsv")]
    res = vlib.run_pipeline(ctx, exe, args, mcheck)
    cross_check_in_coq(ctx, 400 if big else 80)
    vlib.judge(ctx, res, "Store.v / Watch.v <-> pkg/store/v2/{transaction,proposal,configuration}, pkg/store/v3/{transaction,configuration}")
    vlib.std_coverage(ctx, res,
                      "histories of create/update/update-status/get/list/watch/cancel/drain by 3 clients against the REAL v2 and v3 stores on the "
                      "Atomix test client, whole calls in harness-chosen order; after every call the answer, the caller's object and the full store "
                      "contents are compared with Store.v (versions per record through a bijection), the watch streams with the schedules of Watch.v; "
                      "monitors (stated on the observation): per-record compare-and-set register, growing versions, indexes never reused, refused "
                      "writes change nothing, values stored as written, last event per record = latest version at quiescence, cancel disturbs nobody; "
                      "probes = forced cancel schedules in a child process; stress = goroutines without schedule (thorough: 12 per store). "
                      "distinct = distinct (store, op, record, field validity, answer, store size, values?) tuples")
    ctx.trusted = vlib.STD_TRUSTED + [
        "modelled: Create/Update/UpdateStatus/Get/List/Watch of the five stores, Atomix map/indexed map (versions, IfVersion, Append, equal-bytes no-op), "
        "event loop / watcher goroutine / consumer with unbuffered channels; trusted: linearizability of Atomix itself, Go channel fairness, a clock that "
        "differs between two store calls (Updated = time.Now()), PrunePathMap on unrelated paths = identity (pruning belongs to C03)",
        "watch half: unbounded (C15_watch_latest, C15_watch_never_loses, C15_cancel_isolated) relative to the abstractions of Model/Watch.v listed in the manifest note; still partial: refused configuration writes and path values (F-08 / F-08b, open)"]
    ctx.notes = ["versions of the Atomix test cluster are comparable per record only (per-partition numbering)",
                 "v3 transaction List returns after the first target's log (modelled as such; not part of the property)"]


def cross_check_in_coq(ctx, n):
    """re-evaluate a slice of the store calls of one store kind inside Coq (vm_compute): answer codes of a replayed history"""
    kinds = {"tx2": "TxV2", "prop2": "PropV2", "cfg2": "CfgV2", "tx3": "TxV3", "cfg3": "CfgV3"}
    ops = {"create": "OCreate", "update": "OUpdate", "status": "OStatus"}
    codes = {"ok": "COk", "invalid": "CInvalid", "notfound": "CNotFound", "exists": "CExists", "conflict": "CConflict"}
    hists, cur, vmap = [], None, {}
    total = 0
    for ln in open(os.path.join(ctx.work, "lines.tsv")):
        f = ln.rstrip("\n").split("\t")
        if f[0] == "c15.begin":
            if cur and cur[1]:
                hists.append(cur)
            cur, vmap = (f[2], []), {}
            if total >= n:
                cur = None
                break
        elif f[0] == "c15.op" and cur is not None and f[3] in ops and f[12] in codes:
            kind, op, key, flags = f[2], f[3], f[5], f[6]
            if kind == "cfg3" and "+" in f[11]:
                cur = (cur[0], [])     # the last-visited path of a multi-path v3 write is an oracle: history not replayed in Coq
                vmap = None
                continue
            if vmap is None:
                continue
            inver = int(f[7])
            mv = 0 if inver == 0 else vmap.get((key, inver), 900000)
            log = "B \"ta\"" if kind == "tx3" and key in ("k0", "k1") else ("B \"tb\"" if kind == "tx3" else "[]")
            vals = "None" if f[11] == "-" else "Some [" + "; ".join(
                "(B \"%s\", {| pv_val := %s; pv_idx := %s; pv_del := %s |})" % (p, v.split("/")[0], v.split("/")[1], "true" if v.split("/")[2] == "1" else "false")
                for p, v in (e.split("=") for e in f[11].split("+"))) + "]"
            cur[1].append("(%s, {| o_key := B \"%s\"; o_log := %s; o_idok := %s; o_tgtok := %s; o_txok := %s; o_version := %d; o_revision := %s; o_index := %s; "
                          "o_payload := %s; o_vals := %s; o_avals := None; o_last := [] |}, %s)" % (
                              ops[op], key, log, *["true" if c == "1" else "false" for c in flags], mv, f[8], f[9], f[10], vals, codes[f[12]]))
            total += 1
            if f[12] == "ok":
                # model versions are 1, 2, 3 ... in order of accepted writes of the history
                vmap[(key, int(f[13]))] = 1 + sum(1 for c in cur[1] if c.endswith("COk)")) - 1
    if cur and cur[1]:
        hists.append(cur)
    body = ("From Coq Require Import List NArith Bool String.\nFrom OC Require Import Base.Bytes Model.Atomix Model.Store.\nImport ListNotations.\nOpen Scope N_scope.\n"
            "Fixpoint replay (k : kind) (st : sstate) (l : list (opk * obj * code)) : nat :=\n"
            "  match l with [] => O | (op, o, c) :: r => match step k op o st with (st', c', _, _) => ((if code_eqb c c' then 0 else 1) + replay k st' r)%nat end end.\n"
            "Definition bad := Eval vm_compute in (" + " + ".join(
                ["replay %s init [\n%s]" % (kinds[k], ";\n".join(l)) for k, l in hists] or ["O"]) + ")%nat.\nPrint bad.\n")
    rc, out = vlib.coq_eval(ctx, "cases_c15", body)
    ok = rc == 0 and "bad = 0" in out.replace("\n", " ")
    ctx.coverage["in_kernel_cross_check"] = {"histories": len(hists), "calls": total, "agree": ok}
    if not ok:
        ctx.violation("in-kernel evaluation of Model.Store.step disagrees with the implementation's answers on the sampled histories",
                      {"broken": "cases_c15.v (vm_compute of the model on harness observations)", "output": out[-1500:]}, no_input=True)

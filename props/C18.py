"""C18 - the JSON document is the configuration, no more and no less."""
import json
import os
import vlib


def run(ctx):
    vlib.proof_step(ctx)
    mcheck = ctx.build_mcheck("c18", "ExC18.v", "c18_check.ml", extra_ml=["mlib.ml"])
    exe, log = ctx.build_harness("c18")
    if exe is None:
        raise vlib.CheckError("harness build failed:\n" + log[-3000:])
    big = ctx.tier == "thorough"
    args = ["-seed", ctx.seed, "-build", 12000 if big else 500, "-prune", 12000 if big else 500, "-path", 40000 if big else 3000,
            "-corpus", os.path.join(vlib.ROOT, "corpus", "c18.tsv")]
    res = vlib.run_pipeline(ctx, exe, args, mcheck)
    cross_check_in_coq(ctx, 260 if big else 60)
    vlib.judge(ctx, res, "Tree.v <-> tree.BuildTree / PrunePathValues / PrunePathMap (v2 and v3), utils.SplitPath, utils.IsPathBelow")
    vlib.std_coverage(ctx, res,
                      "tree.build: BuildTree v2 and v3, both jsonRFC7951 flags, on generated path/value sets (nested and multi-key lists, "
                      "numeric/boolean keys 1/10/true, explicit key leaves of every basic type, list names l/lx/l1, sibling names sharing "
                      "prefixes a/ab/a-b/a.b, keys containing '/', tombstones at any depth, EMPTY-typed leaves, every value type) plus "
                      "non-canonical, conflicting and malformed streams (differential only); JSON compared as parsed trees. "
                      "tree.prune / tree.prunemap: PrunePathValues / PrunePathMap v2 and v3, both leaveTop flags, incl. duplicate paths and "
                      "malformed paths. path.split / path.below: utils.SplitPath, utils.IsPathBelow. "
                      "distinct = distinct (input set, flag) tuples; all non-trivial (every set has >= 1 path; 70% carry tombstones)")
    ctx.trusted = vlib.STD_TRUSTED + [
        "modelled: BuildTree, addPathToTree (key parsing arithmetic, list-entry lookup with the foundkeys counter, convertBasicType), "
        "handleLeafValue as far as the Go type class of the leaf (string/int/uint/bool/other), PrunePathValues, isBelowDeletedPath, "
        "PrunePathMap, utils.SplitPath/nextTokenIndex, utils.IsPathBelow; not modelled: json.MarshalIndent, the content of "
        "decimal/float/bytes/leaf-list leaves (C17), Go map iteration order (argued irrelevant for the lookup, exercised by the differential runs)",
        "independent monitors in ocaml/c18_check.ml (own gNMI splitter, own element-wise subtree relation, own JSON reader and flattener)"]
    ctx.notes = ["the theorems quantify over well-formed sets (wf_set: the live paths, in processing order, are the depth-first enumeration of a "
                 "well-formed trie; evaluated by the extracted predicate on every clean case); that every sorted canonical set is such an "
                 "enumeration is checked per case, not proved",
                 "key order other than the canonical one only comes from an external model plugin (C18_noncanonical_refuted)"]


def coq_item(f):
    q = f.split(":")
    unhx = lambda h: b"" if h == "-" else bytes.fromhex(h)
    opts = "[]" if q[4] == "_" else "[" + ";".join("(%s)%%Z" % o for o in q[4].split(".")) + "]"
    return "{| pv_path := %s; pv_del := %s; pv_val := {| tv_type := %s; tv_bytes := %s; tv_opts := %s |} |}" % (
        vlib.coq_bytes(unhx(q[0])), "true" if q[1] == "1" else "false", q[2], vlib.coq_bytes(unhx(q[3])), opts)


def coq_json(j):
    """JSON value -> Coq term of type jv (object members sorted bytewise by name)"""
    if isinstance(j, dict):
        ms = sorted(j.items(), key=lambda kv: kv[0].encode("utf8"))
        return "JO [" + ";".join("(%s, %s)" % (vlib.coq_bytes(k), coq_json(v)) for k, v in ms) + "]"
    if isinstance(j, list):
        return "JA [" + ";".join(coq_json(v) for v in j) + "]"
    if isinstance(j, bool):
        return "JB true" if j else "JB false"
    if isinstance(j, int):
        return "JN (%d)%%Z" % j
    if isinstance(j, str):
        return "JS " + vlib.coq_bytes(j)
    raise ValueError("leaf kind")


def cross_check_in_coq(ctx, n):
    """re-evaluate a slice of the observations inside Coq (vm_compute): cross-checks extraction and the driver's comparison"""
    builds, prunes = [], []
    for ln in open(os.path.join(ctx.work, "lines.tsv")):
        f = ln.rstrip("\n").split("\t")
        if f[0] == "tree.build" and len(builds) < n and f[6] == "ok" and f[5] != "." and len(f[5]) < 6000:
            its = f[5].split(",")
            if all(i.split(":")[2] in ("0", "1", "2", "3", "4") for i in its):
                try:
                    doc = json.loads(bytes.fromhex(f[7]).decode("utf8"))
                    builds.append("(%s, [%s], %s)" % ("true" if f[4] == "1" else "false", ";".join(coq_item(i) for i in its), coq_json(doc)))
                except (ValueError, UnicodeDecodeError):
                    pass
        elif f[0] == "tree.prune" and len(prunes) < n and f[5] != "." and len(f[5]) < 6000:
            its = f[5].split(",")
            paths = [i.split(":")[0] for i in its]
            if len(set(paths)) == len(paths):
                outs = [] if f[6] == "." else f[6].split(",")
                prunes.append("(%s, [%s], [%s])" % ("true" if f[4] == "1" else "false", ";".join(coq_item(i) for i in its),
                                                    ";".join(coq_item(i) for i in outs)))
    body = ("From Coq Require Import List NArith ZArith Bool.\nFrom OC Require Import Base.Bytes Model.Tree Model.TreeSpec Model.TreeJson.\n"
            "Import ListNotations.\nOpen Scope N_scope.\n"
            "Definition builds : list (bool * list pv * jv) := [\n" + ";\n".join(builds) + "].\n"
            "Definition prunes : list (bool * list pv * list pv) := [\n" + ";\n".join(prunes) + "].\n"
            "Definition bad_b := Eval vm_compute in List.length (filter (fun c => match c with (r, pvs, j) => "
            "negb (match build_tree r pvs with Ok t => jv_eqb (to_jv t) j | _ => false end) end) builds).\n"
            "Definition bad_p := Eval vm_compute in List.length (filter (fun c => match c with (l, pvs, out) => "
            "negb (pvs_eqb (prune l pvs) out) end) prunes).\n"
            "Print bad_b.\nPrint bad_p.\n")
    rc, out = ctx.coq_make(["Model/TreeJson.vo"])
    if rc != 0:
        raise vlib.CheckError("Model/TreeJson.v does not build:\n" + out[-2000:])
    rc, out = vlib.coq_eval(ctx, "cases_c18", body)
    flat = out.replace("\n", " ")
    ok = rc == 0 and "bad_b = 0" in flat and "bad_p = 0" in flat
    ctx.coverage["in_kernel_cross_check"] = {"build_cases": len(builds), "prune_cases": len(prunes), "agree": ok}
    if not ok:
        ctx.violation("in-kernel evaluation of Model.Tree.build_tree / prune disagrees with the implementation on the sampled cases",
                      {"broken": "cases_c18.v (vm_compute of the model on harness observations)", "output": out[-1500:]}, no_input=True)

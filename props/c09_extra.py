"""C09 extra: (1) the lost-wake-up scenarios on the REAL controllers with their real watchers and queues (harness/cmd/c09),
(2) the search over the extracted queue model (ocaml/c09_search.ml): with SERIALIZABLE transactions the open family
(serializable_gate and its consequences) must be the only one; without them no idle state may fail to be a fixed point.

Call `run_extra(ctx)` from props/C09.py after p2_judge."""
import os
import re

import vlib

# no lost-wake-up family is open: the model search may not meet any idle state that is not a fixed point
EXPECTED_FAMILIES = set()


def _excuse(ctx, signature, detail, replay):
    """open findings excuse their own signature (a fixed one excuses nothing)"""
    for k in vlib.known_findings(ctx.prop):
        if k["signature"] == signature and k["status"] == "open":
            ctx.known_hits.setdefault(k["id"], k["what"][:300])
            return
    ctx.violation("%s: %s" % (signature, detail), replay)


def run_model_search(ctx):
    exe = ctx.build_mcheck("c09", "ExC09.v", "c09_search.ml")
    n = "40000" if ctx.tier == "thorough" else "3000"
    res = {}
    for name, env in (("as_is", {}), ("repaired", {"C09_NOSER": "1"})):
        rc, so, se = vlib.sh2([exe, "random", str(ctx.seed), n], env=env, timeout=900)
        if rc != 0:
            raise vlib.CheckError("c09_search failed rc=%s\n%s" % (rc, se[-2000:]))
        fam = {}
        stats = {}
        for ln in so.split("\n"):
            f = ln.split("\t")
            if f[0] == "FAMILY":
                fam[f[1]] = int(f[2])
            elif f[0] == "STAT":
                stats[f[1]] = int(f[2])
        res[name] = (fam, stats)
    fam, stats = res["as_is"]
    unknown = sorted(set(fam) - EXPECTED_FAMILIES)
    if unknown:
        ctx.violation("c09_model_new_family: the queue model (with SERIALIZABLE transactions) reaches idle non-fixed-point states of a family that is "
                      "not a recorded finding: %s" % unknown, {"families": fam, "how": "ocaml/c09_search.ml random %s %s" % (ctx.seed, n)})
    fam2, stats2 = res["repaired"]
    if fam2:
        ctx.violation("c09_model_not_fixpoint: without SERIALIZABLE transactions the queue model reaches "
                      "an idle state that is not a fixed point: %s" % fam2,
                      {"families": fam2, "how": "C09_NOSER=1 ocaml/c09_search.ml random %s %s" % (ctx.seed, n)})
    ctx.coverage["c09_model_search"] = {
        "with_serializable": {"idle_states": stats.get("idle_states", 0), "not_fixpoint": stats.get("idle_not_fixpoint", 0), "families": fam},
        "no_serializable": {"idle_states": stats2.get("idle_states", 0), "not_fixpoint": stats2.get("idle_not_fixpoint", 0),
                            "runs_ending_in_requeue_cycle (F-21 = F-C09-21)": stats2.get("runs_cycle", 0)},
    }


def run_real(ctx):
    exe, log = ctx.build_harness("c09")
    if exe is None:
        raise vlib.CheckError("c09 harness build failed:\n" + log[-3000:])
    n = "5" if ctx.tier == "thorough" else "1"
    rc, so, se = vlib.sh2([exe, "-seed", str(ctx.seed), "-n", n, "-quiet", "500"], timeout=900)
    if rc != 0:
        raise vlib.CheckError("c09 harness failed rc=%s\n%s" % (rc, se[-2000:]))
    seen = {}
    for ln in so.split("\n"):
        f = ln.split("\t")
        if len(f) < 10 or f[0] != "c09.scen":
            continue
        scen = f[2]
        kv = dict(x.split("=", 1) for x in f[3:9])
        seen.setdefault(scen, [0, 0])
        seen[scen][0] += 1
        if kv.get("stalled") == "1":
            seen[scen][1] += 1
            _excuse(ctx, "c09_" + scen if scen != "baseline" else "c09_stall_without_cause",
                    "real controllers, scenario %s: stores quiet, enabled=%s nonfinal=%s connected=%s after one pass of direct reconciles: %s spin=%s reads/s"
                    % (scen, kv.get("enabled"), kv.get("nonfinal"), kv.get("connected"), kv.get("afterprod"), kv.get("spin"))
                    + " state before the direct reconciles: " + "\t".join(f[9:])[:700],
                    {"line": ln[:3000], "how": "harness/cmd/c09 -seed %s -only %s" % (ctx.seed, scen)})
    if "baseline" not in seen:
        ctx.violation("c09 harness produced no baseline line", {"stdout": so[-2000:]}, no_input=True)
    ctx.coverage["c09_real_controllers"] = {k: {"runs": v[0], "stalled": v[1]} for k, v in seen.items()}


def run_restarts(ctx):
    """C07: the process dies and comes back - the REAL controllers are restarted over the re-opened stores with a
    transaction pending / applied / whose proposal was created and never looked at; what was accepted completes, nothing
    is done twice.  A stalled run is a violation of the calling property (signature c07_<scenario>)."""
    exe, log = ctx.build_harness("c09")
    if exe is None:
        raise vlib.CheckError("c09 harness build failed:\n" + log[-3000:])
    n = "3" if ctx.tier == "thorough" else "1"
    seen = {}
    for scen in ("restart_pending", "restart_applied", "restart_proposal_created"):
        rc, so, se = vlib.sh2([exe, "-seed", str(ctx.seed), "-n", n, "-quiet", "500", "-only", scen], timeout=600)
        if rc != 0:
            raise vlib.CheckError("c09 harness (%s) failed rc=%s\n%s" % (scen, rc, se[-2000:]))
        for ln in so.split("\n"):
            f = ln.split("\t")
            if len(f) < 10 or f[0] != "c09.scen" or f[2] != scen:
                continue
            kv = dict(x.split("=", 1) for x in f[3:9])
            seen.setdefault(scen, [0, 0])
            seen[scen][0] += 1
            if kv.get("stalled") == "1":
                seen[scen][1] += 1
                _excuse(ctx, "c07_" + scen,
                        "real controllers restarted over the re-opened stores, scenario %s: stores quiet, enabled=%s nonfinal=%s connected=%s "
                        "after one pass of direct reconciles: %s" % (scen, kv.get("enabled"), kv.get("nonfinal"), kv.get("connected"), kv.get("afterprod")),
                        {"line": ln[:3000], "how": "harness/cmd/c09 -seed %s -only %s" % (ctx.seed, scen)})
        if scen not in seen:
            ctx.violation("c09 harness produced no line for scenario " + scen, {"stdout": so[-2000:]}, no_input=True)
    ctx.coverage["restarts_on_real_controllers"] = {k: {"runs": v[0], "stalled": v[1]} for k, v in seen.items()}


def run_extra(ctx):
    run_model_search(ctx)
    run_real(ctx)

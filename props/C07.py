"""C07 - A crash between any two store writes loses nothing and repeats nothing (protocol model Model/Proto2.v, shared p2 run)."""
import vlib
from props import p2common

PREFIXES = ['c07_']


def run(ctx):
    vlib.proof_step(ctx)
    res = p2common.p2_run(ctx)
    p2common.p2_judge(ctx, res, PREFIXES, "Model/Proto2.v <-> the real v2 reconcilers (steps exercising C07)")
    from props import c09_extra
    c09_extra.run_restarts(ctx)

"""C03 - stored configuration is the gNMI-sequential effect of acknowledged Sets."""
import os
import vlib


def run(ctx):
    vlib.proof_step(ctx)
    mcheck = ctx.build_mcheck("c03", "ExC03.v", "c03_check.ml", extra_ml=["mlib.ml"])
    exe, log = ctx.build_harness("c03")
    if exe is None:
        raise vlib.CheckError("harness build failed:\n" + log[-3000:])
    big = ctx.tier == "thorough"
    corpus = os.path.join(vlib.ROOT, "corpus", "c03.tsv")
    # the thorough tier runs the harness in several processes (one Atomix test cluster each: memory stays bounded)
    chunks = 10 if big else 1
    res = None
    for i in range(chunks):
        args = ["-seed", int(ctx.seed) + 1000 * i, "-hist", 200, "-find", 10, "-commit", 400,
                "-pure", 6000 if big else 4000, "-workers", 12, "-corpus", corpus]
        try:
            r = vlib.run_pipeline(ctx, exe, args, mcheck)
        except vlib.CheckError:
            # the in-memory Atomix cluster of the harness occasionally dies under heavy machine load: one retry
            ctx.notes_retry = getattr(ctx, "notes_retry", 0) + 1
            r = vlib.run_pipeline(ctx, exe, args, mcheck)
        if res is None:
            res = r
        else:
            for k, v in r["stats"].items():
                res["stats"][k] = res["stats"].get(k, 0) + v
            res["mismatches"] += r["mismatches"]
            res["specviols"] += r["specviols"]
            res["nlines"] += r["nlines"]
    cross_check_in_coq(ctx, 600 if big else 150)
    vlib.judge(ctx, res, "Merge.v/CfgStore.v/Wildcard.v <-> AddDeleteChildren, PrunePathValues, MatchWildcardRegexp, configuration store writes, "
                         "proposal reconcileCommit, Get filter")
    vlib.std_coverage(ctx, res,
                      "e2e.*: histories of 1-8 real gNMI Sets (async) through the real controllers, real Get (PROTO/JSON; exact, prefix, split prefix+path, "
                      "* and ... wildcards) after every acknowledged Set, compared with Spec/Gnmi.v (the property monitor) and with the model's Get filter on the "
                      "dumped path-value map; stored map after every Set validated against persist_commit of the model from the previous dump; "
                      "commit/store: real configuration store writes and the real proposal reconciler's commit step (direct Reconcile) vs store_write/commit_merge "
                      "(membership in the outcome set over Go map orders); adc/prune/wild: pure differential cases incl. malformed paths and regexp metacharacters. "
                      "distinct = distinct inputs (all exercise path comparison or map merging)")
    # the shared protocol run: validate/commit steps of the real proposal reconciler against Proto2 (applyChangeToConfig,
    # commit_merge, store write over multi-transaction histories incl. nested tombstones) and the c03_ end-state monitors
    from props import p2common
    p2common.p2_extra(ctx, ["c03_"], "Model/Proto2.v + P2Pure.v <-> reconcileValidate/reconcileCommit merges (steps exercising C03)")
    ctx.trusted = vlib.STD_TRUSTED + [
        "modelled (repaired code): IsPathBelow, computeChange, AddDeleteChildren (with its in-place mutation), applyChangeToConfig, the candidate/rollback construction of "
        "reconcileValidate, reconcileCommit's merge, reconcileApply's updated values, PrunePathValues/PrunePathMap, configuration store()/clearDeletedAncestors/populate (separate committed and applied Atomix maps, inline copies in the entry), MatchWildcardRegexp, getUpdate's filter. Not modelled here: the textual path codec (C16; the theorems assume well-formed "
        "canonical paths), value codec (C17), JSON tree (C18), the reconcilers' scheduling (C01/C02/C09), rollback (C06)",
        "the reference semantics Spec/Gnmi.v (steps = element names and key selectors; '...' stands for one or more whole elements) is part of what the property means here"]
    ctx.notes = ["histories use string leaves over a schema with containers, single- and two-key lists and sibling names that are string prefixes of each other",
                 "deleting a key leaf is resolved by the Set handler to deleting its list entry (generator names the entry directly)",
                 "device side (apply) is not running in the end-to-end histories: asynchronous Sets are acknowledged on COMMITTED"]


def cross_check_in_coq(ctx, n):
    """re-evaluate a slice of the observations inside Coq (vm_compute): store writes, prune and wildcard cases"""
    def pvl(s):
        if s == ".":
            return "[]"
        out = []
        for it in s.split(","):
            f = it.split(":")
            p = bytes.fromhex(f[0]) if f[0] != "-" else b""
            v = bytes.fromhex(f[1]) if f[1] != "-" else b""
            k = (bytes.fromhex(f[4]) if f[4] != "-" else b"") if len(f) > 4 else p
            out.append("(%s, mkPV %s %s %s %s)" % (vlib.coq_bytes(k), vlib.coq_bytes(p), vlib.coq_bytes(v), "true" if f[2] == "1" else "false", f[3]))
        return "[" + ";".join(out) + "]"
    stores, wilds, prunes = [], [], []
    for ln in open(os.path.join(ctx.work, "lines.tsv")):
        f = ln.rstrip("\n").split("\t")
        if f[0] == "c03.store" and len(stores) < n:
            stores.append("(%s, %s, %s)" % (pvl(f[3]), pvl(f[8]), pvl(f[9])))
        elif f[0] == "c03.wild" and len(wilds) < 3 * n and f[5] in ("0", "1"):
            q = bytes.fromhex(f[2]) if f[2] != "-" else b""
            p = bytes.fromhex(f[4]) if f[4] != "-" else b""
            wilds.append("(%s, %s, %s, %s)" % (vlib.coq_bytes(q), "true" if f[3] == "1" else "false", vlib.coq_bytes(p), "true" if f[5] == "1" else "false"))
        elif f[0] == "c03.prune" and len(prunes) < n:
            prunes.append("(%s, %s, %s)" % ("true" if f[2] == "1" else "false", pvl(f[3]), pvl(f[4])))
    body = ("From Coq Require Import List NArith Bool.\nFrom OC Require Import Base.Bytes Model.Merge Model.CfgStore Model.Wildcard.\nImport ListNotations.\nOpen Scope N_scope.\n"
            "Definition pv_eqb (a b : path_value) := eqb_str (pv_path a) (pv_path b) && eqb_str (pv_val a) (pv_val b) && Bool.eqb (pv_deleted a) (pv_deleted b) && (pv_index a =? pv_index b).\n"
            "Definition sub (a b : cfgmap) := forallb (fun kv => match map_get (fst kv) b with Some v => pv_eqb v (snd kv) | None => false end) a.\n"
            "Definition same (a b : cfgmap) := sub a b && sub b a.\n"
            "Fixpoint same_list (a b : list path_value) := match a, b with [] , [] => true | x :: a', y :: b' => pv_eqb x y && same_list a' b' | _, _ => false end.\n"
            "Definition stores : list (cfgmap * cfgmap * cfgmap) := [\n" + ";\n".join(stores) + "].\n"
            "Definition wilds : list (str * bool * str * bool) := [\n" + ";\n".join(wilds) + "].\n"
            "Definition prunes : list (bool * cfgmap * cfgmap) := [\n" + ";\n".join(prunes) + "].\n"
            "Definition bad := Eval vm_compute in (List.length (filter (fun c => match c with (a, v, r) => negb (same (store_write a v) r) end) stores)"
            " + List.length (filter (fun c => match c with (q, e, p, r) => negb (Bool.eqb (match_wildcard q e p) r) end) wilds)"
            " + List.length (filter (fun c => match c with (l, i, r) => negb (same_list (prune_path_values (map snd i) l) (map snd r)) end) prunes))%nat.\n"
            "Print bad.\n")
    rc, out = vlib.coq_eval(ctx, "cases_c03", body)
    ok = rc == 0 and "bad = 0" in out.replace("\n", " ")
    ctx.coverage["in_kernel_cross_check"] = {"cases": len(stores) + len(wilds) + len(prunes), "agree": ok}
    if not ok:
        ctx.violation("in-kernel evaluation of store_write / match_wildcard / prune_path_values disagrees with the implementation on the sampled cases",
                      {"broken": "cases_c03.v (vm_compute of the model on harness observations)", "output": out[-1500:]}, no_input=True)

"""C05 - Nothing becomes configuration without passing the target's model (protocol model Model/Proto2.v, shared p2 run)."""
import vlib
from props import p2common

PREFIXES = ['c05_', 'c08_success_before_stage']  # a rejected Set 'is answered with an error'


def run(ctx):
    vlib.proof_step(ctx)
    res = p2common.p2_run(ctx)
    p2common.p2_judge(ctx, res, PREFIXES, "Model/Proto2.v <-> the real v2 reconcilers (steps exercising C05)")

"""C14 - only members of an admin group may change configuration."""
import os
import vlib


def run(ctx):
    vlib.proof_step(ctx)
    mcheck = ctx.build_mcheck("c14", "ExC14.v", "c14_check.ml", extra_ml=["mlib.ml"])
    exe, log = ctx.build_harness("c14")
    if exe is None:
        raise vlib.CheckError("harness build failed:\n" + log[-3000:])
    big = ctx.tier == "thorough"
    args = ["-seed", ctx.seed, "-eval", 60000 if big else 6000, "-set", 1500 if big else 200,
            "-list", 4000 if big else 500, "-corpus", os.path.join(vlib.ROOT, "corpus", "c14.tsv")]
    res = vlib.run_pipeline(ctx, exe, args, mcheck)
    cross_check_in_coq(ctx, 400 if big else 120)
    vlib.judge(ctx, res, "Rbac.v <-> utils.TemporaryEvaluate / gnmi Set gate / reportAllTargets")
    vlib.std_coverage(ctx, res,
                      "rbac.eval: TemporaryEvaluate on generated ADMINGROUPS x groups (words, substrings, superstrings, empty, "
                      "separators); rbac.set: real gNMI Set handler over real stores+controllers with crafted identity metadata "
                      "(status code, transactions logged); rbac.list: real Get target=* under OIDC on/off, ROC override. "
                      "distinct = distinct input tuples; all are non-trivial (each exercises the group comparison)")
    ctx.trusted = vlib.STD_TRUSTED + ["modelled: utils.TemporaryEvaluate, utils.HasIdentity, the RBAC gate of gnmi Set, Get's group "
                                      "extraction and reportAllTargets' filter; not modelled: OPA filtering (checkOpaAllowed), the "
                                      "authentication interceptor that produces the metadata"]
    ctx.notes = ["metadata is what onos-lib-go's authentication interceptor adds (name, preferred_username, groups)",
                 "ADMINGROUPS is a comma separated list, the groups claim a semicolon separated list"]


def cross_check_in_coq(ctx, n):
    """re-evaluate a slice of the rbac.eval observations inside Coq (vm_compute) - cross-checks extraction"""
    cases = []
    for ln in open(os.path.join(ctx.work, "lines.tsv")):
        f = ln.rstrip("\n").split("\t")
        if f[0] == "rbac.eval" and len(cases) < n:
            a = bytes.fromhex(f[2]) if f[2] != "-" else b""
            g = bytes.fromhex(f[3]) if f[3] != "-" else b""
            cases.append("(%s, %s, %s)" % (vlib.coq_bytes(a), vlib.coq_bytes(g), "true" if f[4] == "1" else "false"))
    body = ("From Coq Require Import List NArith Bool.\nFrom OC Require Import Base.Bytes Model.Rbac.\nImport ListNotations.\nOpen Scope N_scope.\n"
            "Definition cases : list (str * str * bool) := [\n" + ";\n".join(cases) + "].\n"
            "Definition bad := Eval vm_compute in List.length (filter (fun c => match c with (a, g, r) => negb (Bool.eqb (temporary_evaluate a g) r) end) cases).\n"
            "Print bad.\n")
    rc, out = vlib.coq_eval(ctx, "cases_c14", body)
    ok = rc == 0 and "bad = 0" in out.replace("\n", " ")
    ctx.coverage["in_kernel_cross_check"] = {"cases": len(cases), "agree": ok}
    if not ok:
        ctx.violation("in-kernel evaluation of Model.Rbac.temporary_evaluate disagrees with the implementation on the sampled cases",
                      {"broken": "cases_c14.v (vm_compute of the model on harness observations)", "output": out[-1500:]}, no_input=True)

"""helpers of props/C17.py: turn value.rt observation lines into Coq terms"""

COQ_EQ = """
Definition list_eqb {A} (e : A -> A -> bool) := fix go (a b : list A) : bool :=
  match a, b with [], [] => true | x :: a', y :: b' => e x y && go a' b' | _, _ => false end.
Definition vtype_eqb (a b : vtype) : bool :=
  match a, b with
  | VEmpty, VEmpty | VString, VString | VInt, VInt | VUint, VUint | VBool, VBool | VDecimal, VDecimal | VFloat, VFloat
  | VBytes, VBytes | VLLString, VLLString | VLLInt, VLLInt | VLLUint, VLLUint | VLLBool, VLLBool | VLLDecimal, VLLDecimal
  | VLLFloat, VLLFloat | VLLBytes, VLLBytes | VDouble, VDouble | VLLDouble, VLLDouble | VOther, VOther => true
  | _, _ => false end.
Definition tv_eqb (a b : tv) : bool :=
  list_eqb N.eqb (tv_bytes a) (tv_bytes b) && vtype_eqb (tv_type a) (tv_type b) && list_eqb Z.eqb (tv_opts a) (tv_opts b).
Definition scalar_eqb (a b : gval) : bool :=
  match a, b with
  | GString x, GString y | GAscii x, GAscii y | GBytes x, GBytes y => list_eqb N.eqb x y
  | GInt x, GInt y | GUint x, GUint y => Z.eqb x y
  | GBool x, GBool y => Bool.eqb x y
  | GDecimal d p, GDecimal e q => Z.eqb d e && Z.eqb p q
  | GFloat x, GFloat y => N.eqb x y
  | GAny, GAny | GOther, GOther => true
  | _, _ => false end.
Definition gval_eqb (a b : gval) : bool :=
  match a, b with
  | GLeafList x, GLeafList y => list_eqb scalar_eqb x y
  | _, _ => scalar_eqb a b end.
Definition res_eqb {A} (e : A -> A -> bool) (a b : res A) : bool :=
  match a, b with Ok x, Ok y => e x y | Err, Err | Panic, Panic => true | _, _ => false end.
"""


def _bytes(h):
    if h in ("-", ""):
        return "[]"
    b = bytes.fromhex(h)
    return "[" + ";".join("%d%%N" % x for x in b) + "]"


def _z(s):
    return "(%s)" % s


def coq_g(s):
    if s == "x":
        return "GOther"
    if s == "n":
        return "GAny"
    k, body = s[0], s[2:]
    if k == "s":
        return "(GString %s)" % _bytes(body)
    if k == "a":
        return "(GAscii %s)" % _bytes(body)
    if k == "i":
        return "(GInt %s)" % _z(body)
    if k == "u":
        return "(GUint %s)" % _z(body)
    if k == "b":
        return "(GBool %s)" % ("true" if body == "1" else "false")
    if k == "y":
        return "(GBytes %s)" % _bytes(body)
    if k == "d":
        d, p = body.split("/")
        return "(GDecimal %s %s)" % (_z(d), _z(p))
    if k == "f":
        return "(GFloat %d%%N)" % int(body, 16)
    if k == "l":
        inner = body[1:-1]
        return "(GLeafList [%s])" % ("; ".join(coq_g(e) for e in inner.split(";")) if inner else "")
    raise ValueError(s)


def coq_opts(s):
    if s == "nil":
        return "None"
    if s == ".":
        return "(Some [])"
    return "(Some [%s])" % "; ".join(_z(x) for x in s.split(","))


VT = ["VEmpty", "VString", "VInt", "VUint", "VBool", "VDecimal", "VFloat", "VBytes", "VLLString", "VLLInt", "VLLUint", "VLLBool",
      "VLLDecimal", "VLLFloat", "VLLBytes", "VDouble", "VLLDouble"]


def coq_tv(s):
    t, b, o = s.split("|")
    t = int(t)
    return "{| tv_bytes := %s; tv_type := %s; tv_opts := [%s] |}" % (
        _bytes(b), VT[t] if t < len(VT) else "VOther", "" if o == "." else "; ".join(_z(x) for x in o.split(",")))


def coq_res(s, f):
    if s.startswith("ok:"):
        return "(Ok %s)" % f(s[3:])
    return "Err" if s == "err" else "Panic"


def coq_cases(lines_path, n):
    """every k-th value.rt line so that all kinds are sampled; at most n, short values only (keeps the file small)"""
    rows = []
    for ln in open(lines_path):
        f = ln.rstrip("\n").split("\t")
        if f[0] == "value.rt" and len(f) == 7 and len(ln) < 600:
            rows.append(f)
    step = max(1, len(rows) // n)
    out = []
    for f in rows[::step][:n]:
        back = f[6]
        if back == "-":
            back = "err"
        out.append("(%s, %s, %s, %s)" % (coq_g(f[3]), coq_opts(f[4]), coq_res(f[5], coq_tv), coq_res(back, coq_g)))
    return out

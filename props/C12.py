"""C12 - no request can crash the server."""
import glob
import os
import shutil
import vlib


def run(ctx):
    vlib.proof_step(ctx)
    mcheck = ctx.build_mcheck("c12", "ExC12.v", "c12_check.ml", extra_ml=["mlib.ml"])
    exe, log = ctx.build_harness("c12")
    if exe is None:
        raise vlib.CheckError("harness build failed:\n" + log[-3000:])
    big = ctx.tier == "thorough"
    base = int(ctx.seed) if str(ctx.seed).lstrip("-").isdigit() else 1
    # every run is a fresh server instance (empty configuration first, then progressively populated); several
    # shorter runs instead of one long one: independent histories, and a blocked transaction log stays contained
    runs = [(base, 700, 0, True)] + ([(base + 1000 * i, 900, 0, False) for i in range(1, 5)] if big else [])
    runs.append((base + 7919, 1200 if big else 200, 2, False))     # GNMI_SET_SIZE_LIMIT=2: the limit checks of Set
    res = None
    all_lines = []
    for seed, n, limit, with_corpus in runs:
        args = ["-seed", seed, "-n", n, "-limit", limit]
        if with_corpus:
            args += ["-corpus", os.path.join(vlib.ROOT, "corpus", "c12.tsv")]
        r = vlib.run_pipeline(ctx, exe, args, mcheck, timeout=1500)
        all_lines.append(open(os.path.join(ctx.work, "lines.tsv")).read())
        if res is None:
            res = r
        else:
            merge(res, r)
    open(os.path.join(ctx.work, "lines.tsv"), "w").write("".join(all_lines))
    if big:
        fuzz(ctx, res)
    cross_check_in_coq(ctx, 150 if big else 40)
    vlib.judge(ctx, res, "PanicSkel.v <-> gNMI Set/Get/Subscribe/Capabilities and admin handlers of /repo (outcome class: response / status code / panic)")
    vlib.std_coverage(ctx, res,
                      "every case is one call of a real northbound handler of /repo under recover(), in a child process, over the real stores and "
                      "controllers, on a request that went through the real protobuf codecs (structured generation over a 22-path model with lists, "
                      "multi-key lists, every TypedValue arm, hostile element names / keys with brackets, '=', escapes, regexp metacharacters, "
                      "omitted prefix/path/val, malformed and valueless extensions, byte-level mutations that still decode); against the empty and "
                      "the progressively populated configuration.  compared: panic / gRPC code / transaction logged or not; monitors: no panic, "
                      "process survives, every live stored entry stays in the proved domain of the tree builder.  distinct = distinct "
                      "(request, configuration) pairs")
    ctx.trusted = vlib.STD_TRUSTED + [
        "modelled (coq/Model/PanicSkel.v): the request-dependent partial operations of gnmi Set / Get / Subscribe / Capabilities and of admin "
        "LeafSelectionQuery / RollbackTransaction / ListRegisteredModels / list-get-watch services, with utils.StrPath, SplitPath, "
        "pathutils.{Remove,Anonymize}PathIndices, ExtractIndexNames, FindPathFromModel, CheckKeyValue, IsPathValid, GnmiTypedValueToNativeType, "
        "handleLeafList, MatchWildcardRegexp (text + recogniser of the emitted regexp fragment), the slicing of tree.addPathToTree and the "
        "typed-value accessors; not modelled: protobuf decoding itself, regexp/syntax beyond that fragment, the model plugin (oracle), OPA "
        "filtering, the back-end after a transaction is logged, onos-api constructors (their layout is transcribed, not verified)",
        "wire-decodability facts: elements of repeated message fields and messages inside a set oneof are non-nil (set_wire_ok/get_wire_ok); "
        "checked on every decoded request of the run",
        "regexp/syntax is not modelled: must_compile is a recogniser of the fragment MatchWildcardRegexp can emit (proved total on its outputs), "
        "Go's acceptance of that fragment is exercised by the differential stream",
        "Get and LeafSelectionQuery totality is proved for configurations whose live entries satisfy state_ok (tree builder and accessors "
        "do not panic on them); state_ok is evaluated on the implementation's stores after every accepted Set",
    ]
    ctx.notes = ["the model is /repo with fixes/C12-1.patch and fixes/C12-2.patch applied",
                 "a panic on a goroutine the handler does not own cannot be recovered: the harness works in a child process and reports the request in flight"]


def merge(res, res2):
    for k, v in res2["stats"].items():
        res["stats"][k] = res["stats"].get(k, 0) + v
    res["mismatches"] += res2["mismatches"]
    res["specviols"] += res2["specviols"]
    res["samples"] += res2["samples"]
    res["nlines"] += res2["nlines"]


def fuzz(ctx, res):
    """thorough tier: Go native fuzzing of Set / Get / LeafSelectionQuery wire bytes (search support only)"""
    h = os.path.join(vlib.ROOT, "harness")
    extra = []
    if os.path.realpath(vlib.REPO) != "/repo":
        extra = ["-modfile=" + os.path.join(ctx.work, "alt.mod")]
    total = 0
    for target, secs in (("FuzzSet", 100), ("FuzzGet", 80), ("FuzzLeafSelection", 40)):
        rc, out, dt = vlib.sh(["go", "test", "-tags", "verif"] + extra + ["-run", "^$", "-fuzz", "^" + target + "$", "-fuzztime", "%ds" % secs, "./cmd/c12"], cwd=h, timeout=secs + 600)
        execs = 0
        for ln in out.split("\n"):
            if "execs:" in ln:
                try:
                    execs = int(ln.split("execs:")[1].split()[0])
                except ValueError:
                    pass
        total += execs
        ctx.coverage.setdefault("fuzz", {})[target] = {"seconds": secs, "execs": execs, "rc": rc}
        if rc != 0:
            # go test writes the failing input under testdata/fuzz/<target>/
            fails = sorted(glob.glob(os.path.join(h, "cmd", "c12", "testdata", "fuzz", target, "*")), key=os.path.getmtime)
            inp = open(fails[-1]).read() if fails else ""
            if "panic" in out or "FAIL" in out:
                res["specviols"].append({"id": "fuzz:" + target, "signature": "c12_panic_fuzz_" + target.lower(),
                                         "detail": "go test -fuzz %s found a crashing input: %s\n%s" % (target, inp[:600], out[-1200:])})
                if fails:
                    os.makedirs(os.path.join(vlib.ROOT, "replays"), exist_ok=True)
                    shutil.copy(fails[-1], os.path.join(vlib.ROOT, "replays", "C12-fuzz-" + target + ".txt"))
            else:
                raise vlib.CheckError("go test -fuzz %s failed to run:\n%s" % (target, out[-3000:]))
    res["stats"]["fuzz.execs"] = total


def cross_check_in_coq(ctx, n):
    """re-evaluate a slice of the Set observations inside Coq (vm_compute of Model.PanicSkel.str_path /
    is_path_valid / tree_guard on stored paths) - cross-checks the extraction"""
    paths = []
    for ln in open(os.path.join(ctx.work, "lines.tsv")):
        f = ln.rstrip("\n").split("\t")
        if f[0] == "c12.state":
            for cfg in f[2].split(";"):
                parts = cfg.split(":")
                if len(parts) != 2 or parts[1] == ".":
                    continue
                for v in parts[1].split(","):
                    p = v.split("~")
                    if p[1] == "0" and p[0] != "-" and p[0] not in paths:
                        paths.append(p[0])
    paths = paths[:n]
    if not paths:
        ctx.coverage["in_kernel_cross_check"] = {"cases": 0, "agree": True}
        return
    items = ";\n".join(vlib.coq_bytes(bytes.fromhex(p)) for p in paths)
    body = ("From Coq Require Import List NArith ZArith Bool.\nFrom OC Require Import Base.Bytes Model.PanicSkel.\nImport ListNotations.\nOpen Scope N_scope.\n"
            "Definition cases : list str := [\n" + items + "].\n"
            "(* every live path the implementation stored is a valid path and inside the tree builder's panic-free domain *)\n"
            "Definition bad := Eval vm_compute in List.length (filter (fun p => negb (is_path_valid p && negb (is_panic (tree_guard p)))) cases).\n"
            "Print bad.\n")
    rc, out = vlib.coq_eval(ctx, "cases_c12", body)
    ok = rc == 0 and "bad = 0" in out.replace("\n", " ")
    ctx.coverage["in_kernel_cross_check"] = {"cases": len(paths), "agree": ok}
    if not ok:
        ctx.violation("in-kernel evaluation of Model.PanicSkel (is_path_valid / tree_guard) on the paths stored by the implementation disagrees with the extracted model",
                      {"broken": "cases_c12.v (vm_compute of the model on harness observations)", "output": out[-1500:]}, no_input=True)

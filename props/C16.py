"""C16 - textual paths and gNMI paths are one and the same."""
import os
import vlib


def run(ctx):
    vlib.proof_step(ctx)
    mcheck = ctx.build_mcheck("c16", "ExC16.v", "c16_check.ml", extra_ml=["mlib.ml"])
    exe, log = ctx.build_harness("c16")
    if exe is None:
        raise vlib.CheckError("harness build failed:\n" + log[-3000:])
    big = ctx.tier == "thorough"
    args = ["-seed", ctx.seed, "-pure", 100000 if big else 6000, "-exhaust", 3 if big else 2,
            "-cu", 2500 if big else 300, "-e2e", 2000 if big else 240,
            "-corpus", os.path.join(vlib.ROOT, "corpus", "c16.tsv")]
    res = vlib.run_pipeline(ctx, exe, args, mcheck)
    cross_check_in_coq(ctx, 1500 if big else 250)
    vlib.judge(ctx, res, "Path.v <-> utils.StrPath / SplitPath / ParseGNMIElements / GetParentPath / CheckPathIndexIsValid / "
                         "IsPathValid / PathValuesToGnmiChange / Get PROTO createUpdate / gNMI Set path construction")
    vlib.std_coverage(ctx, res,
                      "path.str: StrPath on generated gnmi.Path (Elem and v0.3 Element forms); path.rt: the implementation's own "
                      "StrPath -> SplitPath -> ParseGNMIElements round trip, GetParentPath of the text (monitors: round trip and "
                      "injectivity for well-formed paths, parent = path without last element); path.parse: SplitPath + "
                      "ParseGNMIElements on raw and malformed text; path.parent/idx/valid: GetParentPath, CheckPathIndexIsValid, "
                      "IsPathValid; path.chg: PathValuesToGnmiChange; path.cu: stored text read back by the real Get PROTO handler; "
                      "path.e2e: real gNMI Set over real stores and controllers (prefix/path split, 1-3 updates, list-entry deletes, "
                      "unusual key values), its SetResponse, the stored texts, Get PROTO and the southbound request. exhaustive part: "
                      "all strings over {a / \\ [ ] =} up to length %d as names, name pairs and key/value pairs. "
                      "distinct = distinct inputs per domain" % (3 if big else 2))
    ctx.trusted = vlib.STD_TRUSTED + [
        "modelled: StrPath, StrPathElem, strPathV03, writeSafeString, SplitPath, nextTokenIndex, ParseGNMIElements, parseElement, "
        "parseKey, findUnescaped, GetParentPath, CheckPathIndexIsValid, IsPathValid, the path construction of "
        "PathValuesToGnmiChange / newUpdateResult / createUpdate (PROTO) / doUpdateOrReplace / doDelete; not modelled: "
        "FindPathFromModel and the regexp-based index extraction (the Set handler's acceptance is observed, not predicted, "
        "except for the index alphabet), invalid UTF-8 (refused by protobuf before it reaches these functions)"]
    ctx.notes = ["Go strings are byte lists; the model is byte-wise, the harness generates valid UTF-8 only",
                 "a Go map of keys is its association list sorted by key name (canonical form); StrPathElem sorts, parseElement inserts",
                 "findUnescaped's index result is modelled by the rest of the input after the match"]


def cross_check_in_coq(ctx, n):
    """re-evaluate a slice of the observations inside Coq (vm_compute) - cross-checks extraction"""
    rt, parse, parent = [], [], []

    def gp(enc):
        if enc == ".":
            return "[]"
        es = []
        for e in enc.split(";"):
            f = e.split("|")
            ks = []
            for kv in f[1:]:
                k, v = kv.split("=")
                ks.append("(%s, %s)" % (vlib.coq_bytes(unhx(k)), vlib.coq_bytes(unhx(v))))
            es.append("mkElem %s [%s]" % (vlib.coq_bytes(unhx(f[0])), "; ".join(ks)))
        return "[" + "; ".join(es) + "]"

    def res(enc):
        if enc.startswith("ok:"):
            return "ROk " + gp(enc[3:])
        kinds = {"elemname": "ENoElemName", "open": "ENoOpen", "eq": "ENoEq", "keyname": "ENoKeyName",
                 "close": "ENoClose", "keyvalue": "ENoKeyValue"}
        if enc.startswith("err:") and enc[4:] in kinds:
            return "RErr " + kinds[enc[4:]]
        return None

    for ln in open(os.path.join(ctx.work, "lines.tsv")):
        f = ln.rstrip("\n").split("\t")
        if f[0] == "path.rt" and len(rt) < n and len(f) == 7:
            rt.append("(%s, %s)" % (gp(f[2]), vlib.coq_bytes(unhx(f[3]))))
        elif f[0] == "path.parse" and len(parse) < n and len(f) == 5 and res(f[4]):
            parse.append("(%s, %s)" % (vlib.coq_bytes(unhx(f[2])), res(f[4])))
        elif f[0] == "path.parent" and len(parent) < n and len(f) == 4:
            parent.append("(%s, %s)" % (vlib.coq_bytes(unhx(f[2])), vlib.coq_bytes(unhx(f[3]))))
    # spread the sample over the file instead of its head only
    body = ("From Coq Require Import List NArith Bool.\nFrom OC Require Import Base.Bytes Model.Path.\nImport ListNotations.\nOpen Scope N_scope.\n"
            "Definition res_eqb (a b : res gpath) : bool := match a, b with\n"
            "  | ROk p, ROk q => eqb_str (str_path_elem p) (str_path_elem q) && Nat.eqb (length p) (length q)\n"
            "  | RErr x, RErr y => match x, y with ENoElemName, ENoElemName | ENoOpen, ENoOpen | ENoEq, ENoEq | ENoKeyName, ENoKeyName\n"
            "      | ENoClose, ENoClose | ENoKeyValue, ENoKeyValue => true | _, _ => false end\n"
            "  | _, _ => false end.\n"
            "Definition rt : list (gpath * str) := [\n" + ";\n".join(rt) + "].\n"
            "Definition ps : list (str * res gpath) := [\n" + ";\n".join(parse) + "].\n"
            "Definition pa : list (str * str) := [\n" + ";\n".join(parent) + "].\n"
            "Definition bad := Eval vm_compute in\n"
            "  (List.length (filter (fun c => negb (eqb_str (str_path (fst c)) (snd c))) rt)\n"
            "   + List.length (filter (fun c => negb (res_eqb (parse_path (fst c)) (snd c))) ps)\n"
            "   + List.length (filter (fun c => negb (eqb_str (get_parent (fst c)) (snd c))) pa))%nat.\n"
            "Print bad.\n")
    rc, out = vlib.coq_eval(ctx, "cases_c16", body)
    ok = rc == 0 and "bad = 0" in out.replace("\n", " ")
    ctx.coverage["in_kernel_cross_check"] = {"cases": len(rt) + len(parse) + len(parent), "agree": ok}
    if not ok:
        ctx.violation("in-kernel evaluation of Model.Path (str_path / parse_path / get_parent) disagrees with the implementation on the sampled cases",
                      {"broken": "cases_c16.v (vm_compute of the model on harness observations)", "output": out[-1500:]}, no_input=True)


def unhx(s):
    return b"" if s == "-" else bytes.fromhex(s)

"""C20 - the v3 per-target transaction protocol keeps its specified order and consistency."""
import os
import vlib


def run(ctx):
    vlib.proof_step(ctx)
    mcheck = ctx.build_mcheck("c20", "ExC20.v", "c20_check.ml", extra_ml=["mlib.ml", "mnat.ml"])
    exe, log = ctx.build_harness("c20")
    if exe is None:
        raise vlib.CheckError("harness build failed:\n" + log[-3000:])
    big = ctx.tier == "thorough"
    res = sharded_pipeline(ctx, exe, mcheck, shards=24 if big else 4, scen=80 if big else 60, steps=70 if big else 50)
    cross_check_in_coq(ctx, 60 if big else 12)
    vlib.judge(ctx, res, "Proto3.v <-> v3 transaction / configuration / mastership reconcilers over the v3 stores")
    vlib.std_coverage(ctx, res,
                      "p3.step: one line per operation on the real v3 stores / one Reconcile call of the real v3 reconcilers "
                      "(append, rollback request, reconcile with write budget 0/1/unlimited, plugin accept/reject/missing, 17 device "
                      "status codes, mastership and configuration reconciles, relation/connection/target changes, device restart, "
                      "store re-open); every step is validated against Proto3.step from the implementation's own pre-state "
                      "(records, path map, device, result class, events); Order / commit-before-apply / blocking / Consistency are "
                      "evaluated on the implementation's states and on the history read off its record diffs; every scenario ends "
                      "with a healed, drained system on which termination is checked. distinct = distinct completed scenarios "
                      "(operation sequences); scenarios after a known-finding divergence (panic, store loop variable) are skipped "
                      "from that step on and counted under skipped-after.*")
    ctx.trusted = vlib.STD_TRUSTED + [
        "modelled: pkg/controller/v3/transaction/controller.go (whole reconciler), v3 configuration and mastership reconcilers, "
        "Get/populate, UpdateStatus and store of pkg/store/v3/configuration, append/status update of pkg/store/v3/transaction; "
        "paths are key-less element lists, values numbers; ValidateCapabilities=false; one target; reads of one Reconcile are "
        "simultaneous (no write conflicts); not modelled: watchers/queues (who calls Reconcile when), Atomix, gRPC, "
        "PathValuesToGnmiChange / BuildTree beyond leaf paths",
        "the v3 northbound does not exist in the repository: configurations (with a Mastership record) and transactions (change "
        "phases PENDING, PathValue.Index = log index) are created through the stores as spec/Transaction.tla's AppendChange / "
        "RollbackChange do; rollback requests follow the specification's guard and reverse order (others only in the malformed stream)",
        "the ghost history of the model is compared per step with events reconstructed from the implementation's record diffs by "
        "ocaml/c20_check.ml (diff_events), which is trusted for the Order monitors"]
    ctx.notes = ["open findings F-20a,b,c,e,f,g,h (findings/C20.jsonl; F-20d repaired in /repo): Consistency and termination of spec/Config.tla do not hold for the v3 code "
                 "as it is; the theorems C20_*_refuted state that on the model, the corpus re-confirms each on the real code at every run",
                 "C20_commit_before_apply, C20_ordinal_mono, C20_order (the Order conjunct of spec/Config.tla, with its corollaries "
                 "changes_in_log_order, ordinals_follow_log_order, rollbacks_reverse) and C20_failed_blocks_later are proved for all reachable "
                 "worlds through the frontier invariant (C20_frontier_invariant, C20_blocks_invariant); only Consistency remains bounded "
                 "(depth 7 inside Coq, C20_safety_bounded_partial) - it is refuted for the code as it is - and monitored on the implementation"]


def sharded_pipeline(ctx, exe, mcheck, shards, scen, steps):
    """the harness is run as several processes (one in-memory Atomix cluster, gRPC servers and goroutines per scenario add up in
    one process); shard k uses seed ctx.seed*1000+k, shard 0 also runs the corpus; the lines are concatenated for one driver run"""
    from concurrent.futures import ThreadPoolExecutor

    def one(k):
        args = [exe, "-seed", str(int(ctx.seed) * 1000 + k), "-scen", str(scen), "-steps", str(steps)]
        if k == 0:
            args += ["-corpus", os.path.join(vlib.ROOT, "corpus", "c20.tsv")]
        rc, so, se = vlib.sh2(args, timeout=1500)
        if rc != 0:  # one retry: the in-process gRPC servers time out on an overloaded machine
            rc, so, se = vlib.sh2(args, timeout=1500)
        if rc != 0:
            raise vlib.CheckError("harness %s (shard %d) failed rc=%s\n%s\n%s" % (exe, k, rc, so[-500:], se[-3000:]))
        return so
    with ThreadPoolExecutor(max_workers=4) as ex:
        outs = list(ex.map(one, range(shards)))
    so = "".join(outs)
    open(os.path.join(ctx.work, "lines.tsv"), "w").write(so)
    rc, mo, me = vlib.sh2([mcheck], inp=so, timeout=3000)
    if rc != 0:
        raise vlib.CheckError("mcheck failed rc=%s\n%s\n%s" % (rc, mo[-2000:], me[-2000:]))
    return vlib.parse_mcheck(mo, so)


def cross_check_in_coq(ctx, n_scen):
    """replay the first scenarios' transaction reconciles inside Coq (vm_compute of Proto3.step on the decoded pre-state is too
    bulky to print; instead the whole scenario is re-run from the empty world with the labels the driver derived) - here: the
    scripted corpus scenarios of the clean kind are re-run end to end in the kernel and their final cursors compared"""
    import re
    scen = {}
    kinds = {}
    for ln in open(os.path.join(ctx.work, "lines.tsv")):
        f = ln.rstrip("\n").split("\t")
        if len(f) < 10 or f[0] != "p3.step":
            continue
        s = f[1].split(":")[0] + "/" + f[2]
        if f[3] == "init":
            kinds[s] = f[4]
            scen[s] = []
            continue
        scen[s].append(f)
    cases = []
    for s, steps in scen.items():
        if kinds.get(s) != "clean" or len(cases) >= n_scen:
            continue
        labels = []
        ok = True
        ntx = 0
        last = None
        for f in steps:
            op = f[3].split(":")
            if f[3] == "end":
                continue
            l = coq_label(op, ntx)
            if l is None:
                ok = False
                break
            if op[0] == "a":
                ntx += 1
            labels += l
            last = f
        if not ok or last is None or last[7] == "C=.":
            continue
        c = last[7][2:].split("|")
        cm = c[1].split(",")
        ap = c[2].split(",")
        # final committed index/ordinal/revision/target/change and applied index/ordinal/revision/target
        exp = "[%s]" % ";".join(cm[:5] + ap[:4])
        cases.append("(%s, %s)" % ("[" + "; ".join(labels) + "]", exp))
    body = ("From Coq Require Import List NArith Bool.\nFrom OC Require Import Model.Proto3.\nImport ListNotations.\nOpen Scope N_scope.\n"
            "Definition pa : path := [1].\nDefinition pz : path := [26].\n"
            "Definition leaf (p : path) (v idx : N) : path * pval := (p, {| pv_path := p; pv_val := v; pv_del := false; pv_idx := idx |}).\n"
            "Definition tomb (p : path) (idx : N) : path * pval := (p, {| pv_path := p; pv_val := 0; pv_del := true; pv_idx := idx |}).\n"
            "Definition orc v c : oracle := {| o_verdict := v; o_code := c; o_last := None; o_master := 1; o_alloc := false |}.\n"
            "Definition orc2 v c : oracle := {| o_verdict := v; o_code := c; o_last := None; o_master := 2; o_alloc := false |}.\n"
            "Definition cur (w : world) : list N := match w_cfg w with None => [] | Some c => "
            "[k_index (c_cm c); k_ordinal (c_cm c); k_revision (c_cm c); k_target (c_cm c); k_change (c_cm c); "
            "k_index (c_ap c); k_ordinal (c_ap c); k_revision (c_ap c); k_target (c_ap c)] end.\n"
            "Definition eqs (a b : list N) := Nat.eqb (length a) (length b) && forallb (fun p => fst p =? snd p) (combine a b).\n"
            "Definition first_own (w : world) : N := match filter snd (w_rels w) with r :: _ => fst r | [] => 0 end.\n"
            "Definition step' (w : world) (l : label) : world := match l with\n"
            "  | LRecMaster k o => step w (LRecMaster k {| o_verdict := o_verdict o; o_code := o_code o; o_last := None; o_master := first_own w; o_alloc := false |})\n"
            "  | _ => step w l end.\n"
            "Definition run' (ls : list label) : world := fold_left step' ls w0.\n"
            "Definition cases : list (list label * list N) := [\n" + ";\n".join(cases) + "].\n"
            "Definition bad := Eval vm_compute in List.length (filter (fun c => negb (eqs (cur (run' (fst c))) (snd c))) cases).\n"
            "Print bad.\n")
    if not cases:
        ctx.coverage["in_kernel_cross_check"] = {"cases": 0, "agree": True}
        return
    rc, out = vlib.coq_eval(ctx, "cases_c20", body)
    ok = rc == 0 and "bad = 0" in out.replace("\n", " ")
    ctx.coverage["in_kernel_cross_check"] = {"cases": len(cases), "agree": ok,
                                             "what": "whole clean scenarios re-run from the empty world by Proto3.run inside Coq; final cursors compared with the implementation's"}
    if not ok:
        ctx.violation("in-kernel evaluation of Model.Proto3.run disagrees with the implementation's final cursors on the sampled scenarios",
                      {"broken": "cases_c20.v (vm_compute of the model on harness observations)", "output": out[-1500:]}, no_input=True)


CODES = {"OK": 0, "Canceled": 1, "Unknown": 2, "InvalidArgument": 3, "DeadlineExceeded": 4, "NotFound": 5, "AlreadyExists": 6,
         "PermissionDenied": 7, "ResourceExhausted": 8, "FailedPrecondition": 9, "Aborted": 10, "OutOfRange": 11, "Unimplemented": 12,
         "Internal": 13, "Unavailable": 14, "DataLoss": 15, "Unauthenticated": 16}


def coq_label(op, ntx):
    """Coq labels of a harness operation for single-path clean scenarios with at most relation/connection c1, c2;
    None when the operation needs information the replay from the empty world does not have"""
    def vals(s, idx):
        out = []
        for kv in s.split(","):
            p, v = kv.split("=")
            if p not in ("/a", "/z"):
                return None
            pp = "pa" if p == "/a" else "pz"
            out.append("tomb %s %d" % (pp, idx) if v == "-" else "leaf %s %s %d" % (pp, v, idx))
        return "[" + "; ".join(out) + "]"

    def k(b):
        return "99%nat" if int(b) >= 9 else "%d%%nat" % int(b)
    o = op[0]
    if o == "cfg":
        v = vals(op[1], 0) if len(op) > 1 else "[]"
        return None if v is None else ["LCreateCfg " + v]
    if o == "tgt0":
        return ["LTarget true false"]
    if o == "tgt1":
        return ["LTarget true true"]
    if o == "tgt-":
        return ["LTarget false false"]
    if o in ("up", "down", "rup", "rdown", "cup", "cdown", "fup"):
        i = int(op[1][1:])
        if o == "up":
            # an existing relation keeps its owner: only c3 is ever foreign in the generator
            return ["LRel %d true true" % i, "LConn %d true" % i] if i % 10 == 1 else None  # only c1 (one candidate at a time)
        if o == "down":
            return ["LConn %d false" % i, "LRel %d false true" % i]
        if o == "rup":
            return ["LRel %d true true" % i] if i % 10 != 3 else None
        if o == "fup":
            return ["LRel %d true false" % i] if i % 10 == 3 else None
        if o == "rdown":
            return ["LRel %d false true" % i]
        if o == "cup":
            return ["LConn %d true" % i]
        if o == "cdown":
            return ["LConn %d false" % i]
    if o == "restart":
        return ["LDevRestart"]
    if o == "reopen":
        return []
    if o == "a":
        v = vals(op[1], ntx + 1)
        return None if v is None else ["LAppend " + v]
    if o == "b":
        return ["LRollback %s" % op[1]]
    if o == "r":
        verdict = {"a": "VAccept", "r": "VReject", "n": "VNoPlugin"}[op[3]]
        return ["LRecTx %s %s (orc %s %d)" % (op[1], k(op[2]), verdict, CODES[op[4]])]
    if o == "c":
        return ["LRecCfg %s (orc VAccept %d)" % (k(op[1]), CODES[op[2]])]
    if o == "m":
        return ["LRecMaster %s (orc VAccept 0)" % k(op[1])]  # the replay elects the first candidate (see run' in the cases file)
    return None

"""C04 - A connected device converges to the stored configuration (protocol model Model/Proto2.v, shared p2 run)."""
import vlib
from props import p2common

PREFIXES = ['c04_', 'c03_', 'c10_resync_incomplete']  # convergence needs the complete re-push


def run(ctx):
    vlib.proof_step(ctx)
    res = p2common.p2_run(ctx)
    p2common.p2_judge(ctx, res, PREFIXES, "Model/Proto2.v <-> the real v2 reconcilers (steps exercising C04)")
    # the real southbound connection manager (the protocol model's LConnUp / LConnDown labels): model, refinement theorem
    # and scenarios over real gRPC
    from props import conn_extra
    conn_extra.run_extra(ctx)

"""C10 - Only the current master writes, in its term, after re-synchronising (protocol model Model/Proto2.v, shared p2 run)."""
import vlib
from props import p2common

PREFIXES = ['c10_']


def run(ctx):
    vlib.proof_step(ctx)
    res = p2common.p2_run(ctx)
    p2common.p2_judge(ctx, res, PREFIXES, "Model/Proto2.v <-> the real v2 reconcilers (steps exercising C10)")
    # the real southbound connection manager (the protocol model's LConnUp / LConnDown labels): model, refinement theorem
    # and scenarios over real gRPC
    from props import conn_extra
    conn_extra.run_extra(ctx)

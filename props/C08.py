"""C08 - every Set and rollback request is answered, and the answer is truthful."""
import os
import vlib


def run(ctx):
    # the tables of Gen/Tables.v come from the Go source; if the translator no longer recognises the
    # shape of the code the theorems cannot be re-established: report that, keep the previous tables for
    # the rest of this run only so that the monitors still search for a concrete failing input
    try:
        vlib.translate_tables()
    except vlib.CheckError as e:
        if not os.path.exists(os.path.join(vlib.COQ, "Gen", "Tables.v")):
            raise
        ctx.translator_error = str(e)
        vlib.translate_tables = lambda: None
    vlib.proof_step(ctx)
    mcheck = ctx.build_mcheck("c08", "ExC08.v", "c08_check.ml", extra_ml=["mlib.ml", "mnat.ml"])
    exe, log = ctx.build_harness("c08")
    if exe is None:
        raise vlib.CheckError("harness build failed:\n" + log[-3000:])
    big = ctx.tier == "thorough"
    args = ["-seed", ctx.seed, "-loop", 40000 if big else 2500, "-watch", 4000 if big else 250,
            "-e2e", 1500 if big else 130, "-stall", 300 if big else 40, "-corpus", os.path.join(vlib.ROOT, "corpus", "c08.tsv")]
    res = vlib.run_pipeline(ctx, exe, args, mcheck, timeout=1500)
    cross_check_in_coq(ctx, 1500 if big else 250)
    vlib.judge(ctx, res, "Handler.v/Watch2.v/Gen.Tables <-> gNMI Set, admin RollbackTransaction, transaction store Watch")
    if getattr(ctx, "translator_error", None):
        concrete = any(not v["no_input"] for v in ctx.violations)
        ctx.violation("tools/translate no longer finds the wait loop / failure switch tables in the Go source, so the C08 theorems "
                      "are not re-established for the current code (previous tables used for this run's comparison only):\n"
                      + ctx.translator_error[-1200:],
                      {"broken": "generation of coq/Gen/Tables.v; theorems of coq/Properties/C08.v", "log": ctx.translator_error[-3000:]},
                      no_input=not concrete)
    vlib.std_coverage(ctx, res,
                      "h.loop: the real Set / RollbackTransaction handlers over a scripted transaction store (every single event, "
                      "every failure type value, valid histories delivered under random placements j<=k, arbitrary event streams, "
                      "change maps with arbitrary path text); h.watch: the real transaction store's Watch(WithReplay, WithTransactionID) "
                      "opened in the middle of interleaved writes to two transactions; h.e2e: the real handlers over real stores, real "
                      "controllers, gRPC devices and plugin, the handler's store decorated so that none/some/all phases complete "
                      "between Create and Watch (sync/async, success, plugin rejection, 12 device error codes, retried codes, "
                      "offline target, rollback ok / missing / not latest / of a rollback / refused by the device); h.stall: after a real Set "
                      "returned and its context was cancelled, does the real store still deliver events to a new watcher; h.status: "
                      "errors.Status of every constructor. distinct = distinct (inputs, delivered events) tuples; trivial cases "
                      "(single-event streams) are about 4% of them")
    ctx.trusted = vlib.STD_TRUSTED + [
        "tools/translate (go/ast -> Gen/Tables.v): embeds the numeric values of the onos-api enums and onos-lib-go's errors.Status "
        "constructor -> code table (the latter re-observed on the real library on every run, domain h.status)",
        "modelled: set.go from transactions.Create on, admin.go RollbackTransaction from Create on, store.go Watch with replay and id "
        "filter (registration point j, replay snapshot k >= j, one event per store write, in order), newUpdateResult's parse check; "
        "not modelled: gRPC deadlines / context cancellation (the loop then returns ctx.Err()), a failing replay read "
        "(HandlerProofs.no_replay_no_answer), goroutine scheduling inside the Atomix client",
    ]
    ctx.notes = ["status histories: stages only move forward, APPLIED and FAILED are final, a FAILED record keeps its failure "
                 "(valid_history; needed only for the error half of C08_truthful)",
                 "the real race between Create and Watch is replaced by its logical placements (j, k); the harness forces the "
                 "controllers' progress between Create and Watch and reads j and k off the delivered events",
                 "C08_truthful_set_handler assumes every path of the change map parses back into gNMI elements (cm_parses)"]


def _coq_events(s):
    if s in (".", ""):
        return "[]"
    out = []
    for e in s.split(","):
        st, f, sy = e.split(":")
        fi = None if f == "-" else int(f)
        if fi is None:
            fs = "None"
        else:
            fs = "(Some (failure_of_N %d))" % (fi if 0 <= fi <= 11 else 99)
        out.append("mk_event %s %s %s" % (("ASYNCHRONOUS", "SYNCHRONOUS")[int(sy)],
                                          ("PENDING", "VALIDATED", "COMMITTED", "APPLIED", "FAILED")[int(st)], fs))
    return "[" + "; ".join(out) + "]"


def _coq_cm(s):
    if s in (".", ""):
        return "[]"
    by = {}
    order = []
    for r in s.split(","):
        t, p, o = r.split(":")
        if t not in by:
            by[t] = []
            order.append(t)
        by[t].append("(%s, %s)" % (vlib.coq_bytes(b"" if p == "-" else bytes.fromhex(p)), "true" if o == "D" else "false"))
    return "[" + "; ".join("(%s, [%s])" % (vlib.coq_bytes(b"" if t == "-" else bytes.fromhex(t)), "; ".join(by[t])) for t in order) + "]"


def cross_check_in_coq(ctx, n):
    """re-evaluate a slice of the scripted-store observations inside Coq (vm_compute): cross-checks extraction"""
    cases = []
    want_odd = n // 3
    for ln in open(os.path.join(ctx.work, "lines.tsv")):
        f = ln.rstrip("\n").split("\t")
        if f[0] != "h.loop" or len(f) != 10 or len(cases) >= n:
            continue
        kind, label, events, cm, outcome = f[2], f[4], f[5], f[6], f[8]
        if label.endswith("oddpaths"):
            if want_odd <= 0:
                continue
            want_odd -= 1
        if outcome == "WAIT":
            code = 100
        elif outcome == "OK":
            code = 101
        elif outcome.startswith("ERR:"):
            code = int(outcome[4:])
        else:
            continue
        cases.append("(%s, %s, %s, %d%%N)" % ("true" if kind == "set" else "false", _coq_events(events), _coq_cm(cm), code))
    body = ("From Coq Require Import List NArith Bool.\nFrom OC Require Import Base.Bytes Model.Failure Model.Handler.\nImport ListNotations.\nOpen Scope N_scope.\n"
            "Definition cases : list (bool * list tx_event * change_map * N) := [\n" + ";\n".join(cases) + "].\n"
            "Definition run (c : bool * list tx_event * change_map * N) : N :=\n"
            "  match c with (isset, evs, cm, _) =>\n"
            "    if isset then match snd (set_handler [] [] cm evs) with SetWaiting => 100 | SetOk _ => 101 | SetErr c => N_of_code c end\n"
            "    else match rollback_handler O [] evs with RbWaiting => 100 | RbOk _ _ => 101 | RbErr c => N_of_code c end\n"
            "  end.\n"
            "Definition bad := Eval vm_compute in List.length (filter (fun c => negb (N.eqb (run c) (snd c))) cases).\n"
            "Print bad.\n")
    rc, out = vlib.coq_eval(ctx, "cases_c08", body)
    ok = rc == 0 and "bad = 0" in out.replace("\n", " ")
    ctx.coverage["in_kernel_cross_check"] = {"cases": len(cases), "agree": ok}
    if not ok:
        ctx.violation("in-kernel evaluation of Model.Handler.set_handler / rollback_handler disagrees with the implementation on the sampled cases",
                      {"broken": "cases_c08.v (vm_compute of the model on harness observations)", "output": out[-1500:]}, no_input=True)

"""conn extra (C10 / C04): the REAL southbound connection manager (pkg/southbound/gnmi/conn_manager.go).

The protocol theorems of C10 / C04 take connections as the labels LConnUp / LConnDown of Model/Proto2.v; this check
covers the code that produces them:
 (1) Properties/C10_conn.v is recompiled (model Model/ConnMgr.v, proofs Proofs/ConnMgr*.v): loss => Removed before Added,
     ids never reused, one live connection per Connect, refinement to the LConnUp / LConnDown labels;
 (2) harness/cmd/conn runs the real manager over real gRPC channels against gNMI servers whose listener and transport
     connections it controls (restart at once / after 50 ms / 1 s / 3 s, resets, GOAWAY, refused attempts, bursts, a
     target that never returns, Disconnect / Connect, two targets); ocaml/conn_check.ml replays every scenario through
     the extracted model and evaluates the contract on the observation.

Call `conn_extra.run_extra(ctx)` from props/C10.py and props/C04.py (after the judge of the p2 run)."""
import os
import re
import time

import vlib

PROP_FILE = "Properties/C10_conn.v"
# the signature of finding F-CONN-1 (the sampling loop missed CONNECTING when the re-dial was faster than the goroutine;
# fixed by /repo ac94f55 - a fixed finding excuses nothing, so this signature is a VIOLATION like any other)
FAST = "c10_conn_survived_fast_redial"


def _excuse(ctx, signature, detail, replay):
    """open findings excuse their own signature (a fixed one excuses nothing)"""
    for k in vlib.known_findings(ctx.prop):
        if k["signature"] == signature and k["status"] == "open":
            ctx.known_hits.setdefault(k["id"], k["what"][:300])
            return True
    ctx.violation("%s: %s" % (signature, detail), replay)
    return False


def proof_part(ctx):
    """recompile Properties/C10_conn.v from scratch, gate its closure, count the closed theorems"""
    t0 = time.time()
    deps = vlib.coq_deps(PROP_FILE)
    src = vlib.strip_coq_comments(open(os.path.join(vlib.COQ, PROP_FILE)).read())
    thms = re.findall(r"^\s*(?:Theorem|Corollary)\s+([A-Za-z0-9_']+)", src, re.M)
    ok, log, assum = True, "", []
    rc, out = ctx.coq_make([d[:-2] + ".vo" for d in deps if d != PROP_FILE])
    if rc != 0:
        ok, log = False, out
    if ok:
        mine = [d for d in deps if "ConnMgr" in d or d == PROP_FILE]
        bad = ctx.coq_gate(mine)
        if bad:
            ok, log = False, "forbidden constructs:\n" + "\n".join(bad)
    if ok:
        vo = os.path.join(vlib.COQ, PROP_FILE[:-2] + ".vo")
        if os.path.exists(vo):
            os.remove(vo)
        rc, out = ctx.coq_make([PROP_FILE[:-2] + ".vo"])
        if rc != 0:
            ok, log = False, out
        else:
            assum = vlib.parse_assumptions(out)
            closed = sum(1 for a in assum if a == "Closed under the global context")
            if closed != len(thms) or len(assum) != len(thms):
                ok, log = False, "%d theorems, %d Print Assumptions blocks, %d closed under the global context:\n%s" % (
                    len(thms), len(assum), closed, "\n".join(assum))
    nlem = 0
    for f in deps:
        if "ConnMgr" in f or f == PROP_FILE:
            p = os.path.join(vlib.COQ, f)
            nlem += len(re.findall(r"^\s*(?:Lemma|Theorem|Corollary|Fact|Remark|Proposition|Example)\b",
                                   vlib.strip_coq_comments(open(p).read()), re.M))
    ctx.coverage["conn_manager_proof"] = {
        "file": "coq/" + PROP_FILE, "theorems": thms, "obligations": len(thms), "discharged": len(thms) if ok else 0,
        "print_assumptions": assum, "closure_files": [d for d in deps if "ConnMgr" in d or d == PROP_FILE],
        "closure_lemmas": nlem, "wall_s": round(time.time() - t0, 1),
        "checker_cmd": "make -C coq Properties/C10_conn.vo (recompiled on every run)",
    }
    # the theorems count as obligations of the property that calls this
    if isinstance(ctx.coverage.get("obligations"), int):
        ctx.coverage["obligations"] += len(thms)
        ctx.coverage["discharged"] = ctx.coverage.get("discharged", 0) + (len(thms) if ok else 0)
        ctx.coverage["theorems"] = list(ctx.coverage.get("theorems", [])) + thms
    if not ok:
        ctx.violation("proof obligation of %s no longer checks:\n%s" % (PROP_FILE, log[-1500:]),
                      {"broken": "theorems of coq/" + PROP_FILE, "log": log[-4000:]}, no_input=True)
    return ok


def _run(ctx, exe, mcheck, args, tag, timeout=900):
    t0 = time.time()
    rc, so, se = vlib.sh2([exe] + [str(a) for a in args], timeout=timeout)
    if rc != 0:
        raise vlib.CheckError("conn harness failed rc=%s\n%s\n%s" % (rc, so[-1500:], se[-2500:]))
    open(os.path.join(ctx.work, "conn_%s.tsv" % tag), "w").write(so)
    rc, mo, me = vlib.sh2([mcheck], inp=so, timeout=300)
    if rc != 0:
        raise vlib.CheckError("conn_check failed rc=%s\n%s\n%s" % (rc, mo[-1500:], me[-1500:]))
    res = vlib.parse_mcheck(mo, so)
    res["wall_s"] = round(time.time() - t0, 1)
    res["lines"] = {}
    for ln in so.split("\n"):
        f = ln.split("\t")
        if len(f) > 3:
            res["lines"].setdefault(f[1], []).append(ln)
    return res


def _judge(ctx, res, how):
    """SPECVIOLs become violations with the scenario as replay (only an OPEN finding with the same signature excuses one;
    there is none); MISMATCHes: the model and the real manager disagree"""
    by_sig = {}
    for v in res["specviols"]:
        by_sig.setdefault(v["signature"], []).append(v)
    excused = 0
    for sig, vs in sorted(by_sig.items()):
        v = vs[0]
        rep = {"case": v["id"], "signature": sig, "occurrences": len(vs), "detail": v["detail"],
               "lines": res["lines"].get(v["id"], [])[:4], "how": how}
        if _excuse(ctx, sig, "real connection manager, %d scenario run(s), first: %s" % (len(vs), v["detail"][:900]), rep):
            excused += len(vs)
    concrete = len(res["specviols"]) - excused
    if res["mismatches"]:
        m = res["mismatches"][0]
        ctx.violation("correspondence Model/ConnMgr.v <-> (*connManager).Connect no longer checks: %d disagreement(s), first: %s"
                      % (len(res["mismatches"]), m["detail"][:900]),
                      {"broken": "correspondence Model/ConnMgr.v <-> pkg/southbound/gnmi/conn_manager.go", "case": m["id"],
                       "lines": res["lines"].get(m["id"], [])[:4], "all": res["mismatches"][:10], "how": how},
                      no_input=(concrete == 0))
    return excused


_CYCLE = ["Idle", "Connecting", "Ready"]
_FAILED = ["TransientFailure", "Idle", "Connecting"]


def _coq_case(line):
    """(events, expected Added/Removed codes) of one harness line as Coq terms, or None when the line has no exact replay"""
    f = line.split("\t")
    t = 7 + int(f[3])
    g = -1
    evs, exp, names = [], [], {}
    for ph in f[5:]:
        kv = dict(x.split("=", 1) for x in ph.split(";") if "=" in x)
        act = kv["act"].split(":")
        if act[0] == "connect":
            g += 1
            evs.append("EConnect %d" % t)
            st = ["Connecting", "Ready"]
        elif act[0] == "cut":
            st = _CYCLE
        elif act[0] == "restart":
            st = ["Idle", "Connecting"] + _FAILED + ["Ready"]
        elif act[0] == "refuse":
            st = ["Idle", "Connecting"] + _FAILED * int(act[1]) + ["Ready"]
        elif act[0] == "down":
            st = ["Idle", "Connecting", "TransientFailure"]
        elif act[0] == "disconnect":
            evs.append("EDisconnect %d" % t)
            st = ["Shutdown"]
        elif act[0] == "-":
            st = []
        else:
            return None
        evs += ["ESample %d %s" % (g, x) for x in st]
        if kv["ev"] != "-":
            for e in kv["ev"].split("."):
                i = names.setdefault(e[1:], len(names) + 1)
                if e[0] not in "AR":
                    return None
                exp.append(2 * i + (1 if e[0] == "R" else 0))
    return "([%s], [%s])" % ("; ".join(evs), "; ".join(str(x) for x in exp))


def cross_check_in_coq(ctx, res, n):
    """re-run a slice of the observed scenarios inside Coq (vm_compute of Model.ConnMgr.run) - cross-checks the extraction"""
    bad_ids = set(v["id"] for v in res["specviols"]) | set(m["id"] for m in res["mismatches"])
    cases = []
    for cid, lines in sorted(res["lines"].items()):
        if cid in bad_ids:
            continue
        for ln in lines:
            c = _coq_case(ln)
            if c and len(cases) < n:
                cases.append(c)
    if not cases:
        return
    body = ("From Coq Require Import List NArith Bool.\nFrom OC Require Import Model.ConnMgr.\nImport ListNotations.\nOpen Scope N_scope.\n"
            "Definition code (o : out) : list N := match o with Added _ _ id => [2 * id] | Removed _ _ id => [2 * id + 1] | _ => [] end.\n"
            "Fixpoint eqb_list (a b : list N) : bool := match a, b with [] , [] => true | x :: a', y :: b' => (x =? y) && eqb_list a' b' | _, _ => false end.\n"
            "Definition cases : list (list event * list N) := [\n" + ";\n".join(cases) + "].\n"
            "Definition bad := Eval vm_compute in List.length (filter (fun c => negb (eqb_list (flat_map code (snd (run 1 (fst c)))) (snd c))) cases).\n"
            "Print bad.\n")
    rc, out = vlib.coq_eval(ctx, "cases_conn", body)
    ok = rc == 0 and "bad = 0" in out.replace("\n", " ")
    ctx.coverage["conn_in_kernel_cross_check"] = {"cases": len(cases), "agree": ok}
    if not ok:
        ctx.violation("in-kernel evaluation of Model.ConnMgr.run disagrees with the real connection manager on the observed scenarios",
                      {"broken": "cases_conn.v (vm_compute of the model on harness observations)", "output": out[-1500:]}, no_input=True)


def coqchk_part(ctx):
    """thorough tier: the independent checker re-checks the compiled closure of Properties/C10_conn.v"""
    import fcntl
    t0 = time.time()
    with open(os.path.join(vlib.WORK, "coq.lock"), "w") as lk:
        fcntl.flock(lk, fcntl.LOCK_SH)
        rc, out, _ = vlib.sh(["coqchk", "-silent", "-o", "-Q", ".", "OC", "OC.Properties.C10_conn"], cwd=vlib.COQ, timeout=3000)
    summary = out[out.find("CONTEXT SUMMARY"):] if "CONTEXT SUMMARY" in out else out[-1500:]
    clean = all(re.search(r"\* " + re.escape(t) + r":\s*<none>", summary) for t in (
        "Axioms", "Constants/Inductives relying on type-in-type", "Constants/Inductives relying on unsafe (co)fixpoints",
        "Inductives whose positivity is assumed"))
    ctx.coverage["conn_manager_proof"]["coqchk"] = {"cmd": "coqchk -silent -o -Q coq OC OC.Properties.C10_conn", "accepted": rc == 0,
                                                    "no_axioms_nothing_assumed": clean, "wall_s": round(time.time() - t0, 1)}
    if rc != 0 or not clean:
        ctx.violation("coqchk does not accept the compiled closure of %s without axioms:\n%s" % (PROP_FILE, summary[-1500:]),
                      {"broken": "theorems of coq/" + PROP_FILE, "log": summary[-4000:]}, no_input=True)


def run_extra(ctx):
    import fcntl
    big = ctx.tier == "thorough"
    if proof_part(ctx) and big:
        coqchk_part(ctx)
    # C10 and C04 both call this: one build + one (timing sensitive) run at a time
    with open(os.path.join(vlib.WORK, "conn.lock"), "w") as lk:
        fcntl.flock(lk, fcntl.LOCK_EX)
        try:
            _run_real(ctx, big)
        finally:
            fcntl.flock(lk, fcntl.LOCK_UN)


def _run_real(ctx, big):
    mcheck = ctx.build_mcheck("conn", "ExConn.v", "conn_check.ml", extra_ml=["mlib.ml", "mnat.ml"])
    exe, log = ctx.build_harness("conn")
    if exe is None:
        raise vlib.CheckError("conn harness build failed:\n" + log[-3000:])
    args = ["-seed", ctx.seed, "-n", 3 if big else 2] + (["-long"] if big else [])
    how = "harness/cmd/conn %s | ocaml/conn_check.ml (./check %s --seed %s%s)" % (
        " ".join(str(a) for a in args), ctx.prop, ctx.seed, " --tier thorough" if big else "")
    res = _run(ctx, exe, mcheck, args, "main")
    if res["stats"].get("conn.scen", 0) == 0:
        ctx.violation("conn harness produced no scenario line", {"stdout": "", "how": how}, no_input=True)
    excused = _judge(ctx, res, how)
    cross_check_in_coq(ctx, res, 80 if big else 40)
    st = res["stats"]
    cov = {
        "what": "real sb.NewConnManager() / Connect / Get / Watch / Disconnect over real gRPC (127.0.0.1) to gNMI servers whose "
                "listener and transport connections the harness controls; every scenario replayed through the extracted "
                "Model/ConnMgr.v and judged against the contract (old id Removed and Get fails, new id Added, usable, one live)",
        "scenario_runs": st.get("conn.scen", 0),
        "scenarios": {k[len("scenario."):]: v for k, v in sorted(st.items()) if k.startswith("scenario.")},
        "actions": {k[len("act."):]: v for k, v in sorted(st.items()) if k.startswith("act.")},
        "distinct_action_timings": st.get("distinct", 0),
        "phases_timed_out": st.get("phase_timed_out", 0),
        "model_impl_mismatches": st.get("mismatches", 0),
        "contract_failures_on_impl": st.get("specviol", 0),
        "excused_by_open_finding": excused,
        "samples": res["samples"][:4],
        "wall_s": res["wall_s"],
    }
    if big:
        # many managers re-dialling at once: the regression scenario of finding F-CONN-1 (fixed: must be 0)
        sargs = ["-seed", ctx.seed, "-n", 100, "-only", "restart_at_once"]
        show = "harness/cmd/conn %s | ocaml/conn_check.ml" % " ".join(str(a) for a in sargs)
        sres = _run(ctx, exe, mcheck, sargs, "stress")
        sex = _judge(ctx, sres, show)
        cov["many_managers_at_once"] = {
            "cmd": show, "scenario_runs": sres["stats"].get("conn.scen", 0),
            "connection_survived_fast_redial (F-CONN-1, fixed: must be 0)": sres["stats"].get("viol:" + FAST, 0),
            "other_contract_failures": sres["stats"].get("specviol", 0) - sres["stats"].get("viol:" + FAST, 0),
            "model_impl_mismatches": sres["stats"].get("mismatches", 0), "excused_by_open_finding": sex,
            "wall_s": sres["wall_s"],
        }
    ctx.coverage["conn_manager_real"] = cov

"""C01 - A multi-target Set is committed on all of its targets or on none (protocol model Model/Proto2.v, shared p2 run)."""
import vlib
from props import p2common

PREFIXES = ['c01_', 'c08_success_before_stage',  # 'reported as failed': the answer of the Set against the transaction's end
            # the value-level theorems (C01_commit_contains_change, C01_all_or_none_values_partial) rest on the commit guard and
            # the chain invariant: a validated proposal merges exactly on its predecessor, else it takes its merge for done
            'c02_commit_guard', 'c02_chain_backlink', 'c02_shared_prev', 'c02_links_not_ordered']


def run(ctx):
    vlib.proof_step(ctx)
    res = p2common.p2_run(ctx)
    p2common.p2_judge(ctx, res, PREFIXES, "Model/Proto2.v <-> the real v2 reconcilers (steps exercising C01)")
